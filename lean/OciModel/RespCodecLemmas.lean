/-
Lemmas about the response codec model (`OciModel/RespCodec.lean`). The property statements that
use them are in `OciModel/Props/C03R.lean`.
-/
import OciModel.RespCodec
import OciModel.ReqCodecLemmas
import OciModel.B64UrlLemmas
import OciModel.PagerLemmas

namespace OciModel.RespCodec
open OciModel OciModel.Ref OciModel.ReqCodec OciModel.Pager

theorem maxI64_eq : maxI64 = ReqCodec.maxInt64 := rfl

/-! ### Lists of bytes -/

theorem dropWhile_id {p : UInt8 → Bool} {s : Bytes} (h : ∀ c ∈ s, p c = false) : s.dropWhile p = s := by
  cases s with
  | nil => rfl
  | cons c s => exact List.dropWhile_cons_of_neg (by simp [h c (by simp)])

theorem trimString_id {s : Bytes} (h : ∀ c ∈ s, isASCIISpace c = false) : trimString s = s := by
  unfold trimString
  rw [dropWhile_id h, dropWhile_id (fun c hc => h c (List.mem_reverse.mp hc)), List.reverse_reverse]

theorem cutByte_append {sep : UInt8} {a : Bytes} (b : Bytes) (h : sep ∉ a) :
    cutByte sep (a ++ sep :: b) = some (a, b) := by
  have hp : ∀ c ∈ a, (c != sep) = true := by
    intro c hc
    simp only [bne_iff_ne, ne_eq]
    rintro rfl
    exact h hc
  unfold cutByte
  rw [List.dropWhile_append_of_pos hp, List.takeWhile_append_of_pos hp,
    List.dropWhile_cons_of_neg (by simp), List.takeWhile_cons_of_neg (by simp)]
  simp

theorem cutByte_none {sep : UInt8} {a : Bytes} (h : sep ∉ a) : cutByte sep a = none := by
  have hp : ∀ c ∈ a, (c != sep) = true := by
    intro c hc
    simp only [bne_iff_ne, ne_eq]
    rintro rfl
    exact h hc
  unfold cutByte
  have : a.dropWhile (· != sep) = [] := by
    have := List.dropWhile_append_of_pos (l₂ := []) hp
    simpa using this
  rw [this]

theorem splitOn_none {sep : UInt8} {a : Bytes} (h : sep ∉ a) : splitOn sep a = [a] := by
  induction a with
  | nil => rfl
  | cons c a ih =>
    have hc : c ≠ sep := fun e => h (by simp [e])
    have ha : sep ∉ a := fun e => h (List.mem_cons_of_mem _ e)
    simp [splitOn, hc, ih ha]

theorem splitOn_append {sep : UInt8} {a : Bytes} (b : Bytes) (h : sep ∉ a) :
    splitOn sep (a ++ sep :: b) = a :: splitOn sep b := by
  induction a with
  | nil => simp [splitOn]
  | cons c a ih =>
    have hc : c ≠ sep := fun e => h (by simp [e])
    have ha : sep ∉ a := fun e => h (List.mem_cons_of_mem _ e)
    simp [splitOn, hc, ih ha]

/-! ### Decimal text -/

theorem itoa_ofNat (m : Nat) : itoa (m : Int) = (Nat.toDigits 10 m).map (fun c => c.val.toUInt8) := by
  have hd : ∀ c ∈ Nat.toDigits 10 m, c.isDigit = true :=
    fun c hc => Nat.isDigit_of_mem_toDigits (by decide) (by decide) hc
  show strBytes (toString (Int.ofNat m)) = _
  rw [show toString (Int.ofNat m) = String.ofList (Nat.toDigits 10 m) from rfl,
    strBytes_ofList, flatMap_utf8_digits _ hd]

theorem itoa_digits {n : Int} (h0 : 0 ≤ n) : ∀ c ∈ itoa n, isDigit c = true := by
  obtain ⟨m, rfl⟩ := Int.eq_ofNat_of_zero_le h0
  rw [itoa_ofNat]
  intro c hc
  obtain ⟨c', hc', rfl⟩ := List.mem_map.mp hc
  exact (digit_byte (Nat.isDigit_of_mem_toDigits (by decide) (by decide) hc')).1

theorem itoa_ne_nil' {n : Int} (h0 : 0 ≤ n) : itoa n ≠ [] := by
  obtain ⟨m, rfl⟩ := Int.eq_ofNat_of_zero_le h0
  rw [itoa_ofNat]
  simp [Nat.toDigits_ne_nil]

theorem digit_not {c : UInt8} (h : isDigit c = true) :
    c ≠ cDash ∧ c ≠ cSlash ∧ c ≠ 44 ∧ isASCIISpace c = false := by
  have hh : 48 ≤ c.toNat ∧ c.toNat ≤ 57 := by
    simpa [isDigit, UInt8.le_iff_toNat_le] using h
  refine ⟨?_, ?_, ?_, ?_⟩
  · rintro rfl; revert hh; decide
  · rintro rfl; revert hh; decide
  · rintro rfl; revert hh; decide
  · simp only [isASCIISpace, Bool.or_eq_false_iff, beq_eq_false_iff_ne, ne_eq]
    refine ⟨⟨⟨?_, ?_⟩, ?_⟩, ?_⟩ <;> (rintro rfl; revert hh; decide)

theorem itoa_no {n : Int} (h0 : 0 ≤ n) (x : UInt8) (hx : isDigit x = false) : x ∉ itoa n := by
  intro hc
  rw [itoa_digits h0 x hc] at hx
  cases hx

theorem itoa_trim {n : Int} (h0 : 0 ≤ n) : trimString (itoa n) = itoa n :=
  trimString_id fun c hc => (digit_not (itoa_digits h0 c hc)).2.2.2

theorem parseContentLength_itoa {n : Int} (h0 : 0 ≤ n) (hmax : n ≤ maxI64) :
    parseContentLength (itoa n) = some n := by
  unfold parseContentLength
  have hall : (itoa n).all isDigit = true := by
    simpa using itoa_digits h0
  rw [if_pos ⟨itoa_ne_nil' h0, hall⟩]
  exact atoi_itoa n h0 hmax

/-! ### The `Range` request header -/

theorem parseOneRange_closed {a b : Int} (ha : 0 ≤ a) (hamax : a ≤ maxI64) (hb : 0 ≤ b) (hbmax : b < maxI64) :
    parseOneRange (itoa a ++ [cDash] ++ itoa b) = if a > b then none else some (a, b + 1) := by
  unfold parseOneRange
  rw [List.append_assoc, List.singleton_append, cutByte_append _ (itoa_no ha cDash (by decide))]
  simp only [itoa_trim ha, itoa_trim hb, itoa_ne_nil' ha, itoa_ne_nil' hb, if_false,
    atoi_itoa a ha hamax, atoi_itoa b hb (Int.le_of_lt hbmax)]
  rw [if_neg (by omega)]
  have : succ64 b = b + 1 := by
    unfold succ64
    rw [if_neg (by unfold maxI64 at *; omega)]
  rw [this]

theorem parseOneRange_neg {a : Int} (ha : 0 ≤ a) (hamax : a ≤ maxI64) :
    parseOneRange (itoa a ++ [cDash] ++ itoa (-1)) = none := by
  unfold parseOneRange
  rw [List.append_assoc, List.singleton_append, cutByte_append _ (itoa_no ha cDash (by decide))]
  have e : itoa (-1) = [45, 49] := by decide
  simp only [itoa_trim ha, itoa_ne_nil' ha, if_false, atoi_itoa a ha hamax, e]
  rw [if_neg (by omega)]
  have : trimString [45, 49] = [45, 49] := by decide
  rw [this]
  have : atoi [45, 49] = some (-1) := by decide
  simp only [this]
  simp
  omega

theorem parseOneRange_open {a : Int} (ha : 0 ≤ a) (hamax : a ≤ maxI64) :
    parseOneRange (itoa a ++ [cDash]) = some (a, -1) := by
  unfold parseOneRange
  rw [cutByte_append _ (itoa_no ha cDash (by decide))]
  simp only [itoa_trim ha, itoa_ne_nil' ha, if_false, atoi_itoa a ha hamax]
  rw [if_neg (by omega)]
  simp [trimString]

/-- a header made of one element without commas and spaces -/
theorem srvParseRange_single {body : Bytes} (hne : body ≠ []) (hc : (44 : UInt8) ∉ body)
    (hs : ∀ c ∈ body, isASCIISpace c = false) :
    srvParseRange (sBytesEq ++ body) = (parseOneRange body).map ([·]) := by
  unfold srvParseRange
  rw [if_neg (by rw [List.append_eq_nil_iff]; exact fun h => absurd h.1 (by decide)), cutPrefix_append]
  simp only [splitOn_none hc, List.map_cons, List.map_nil, trimString_id hs]
  rw [List.filter_cons_of_pos (by simpa using hne)]
  simp only [List.filter_nil, List.mapM_cons, List.mapM_nil]
  cases parseOneRange body <;> rfl

theorem digits_dash_ok {s : Bytes} (h : ∀ c ∈ s, isDigit c = true ∨ c = cDash) :
    (44 : UInt8) ∉ s ∧ ∀ c ∈ s, isASCIISpace c = false := by
  refine ⟨fun hc => ?_, fun c hc => ?_⟩
  · rcases h 44 hc with h1 | h1
    · exact absurd h1 (by decide)
    · exact absurd h1 (by decide)
  · rcases h c hc with h1 | h1
    · exact (digit_not h1).2.2.2
    · subst h1; decide

theorem itoa_neg_one : itoa (-1) = [45, 49] := by decide

theorem rangeBody_chars {a b : Int} (ha : 0 ≤ a) (hb : -1 ≤ b) :
    ∀ c ∈ itoa a ++ [cDash] ++ itoa b, isDigit c = true ∨ c = cDash := by
  intro c hc
  simp only [List.mem_append, List.mem_singleton] at hc
  rcases hc with (h | h) | h
  · exact Or.inl (itoa_digits ha c h)
  · exact Or.inr h
  · by_cases hb0 : 0 ≤ b
    · exact Or.inl (itoa_digits hb0 c h)
    · have : b = -1 := by omega
      subst this
      rw [itoa_neg_one] at h
      simp only [List.mem_cons, List.not_mem_nil, or_false] at h
      rcases h with rfl | rfl
      · exact Or.inr rfl
      · exact Or.inl (by decide)

/-- What the server's `parseRange` makes of the header the client sends for `[o0, o1)`. -/
theorem blobCall_cliRangeHdr_closed {o0 o1 : Int} (h0 : 0 ≤ o0) (h0max : o0 ≤ maxI64)
    (h1 : 0 ≤ o1) (h1max : o1 ≤ maxI64) :
    blobCall (cliRangeHdr o0 o1) = if o0 < o1 then some (.range o0 o1) else none := by
  unfold blobCall cliRangeHdr
  rw [if_neg (by omega)]
  have hch := rangeBody_chars (a := o0) (b := o1 - 1) h0 (by omega)
  have hne : itoa o0 ++ [cDash] ++ itoa (o1 - 1) ≠ [] := by simp
  rw [show sBytesEq ++ itoa o0 ++ [cDash] ++ itoa (o1 - 1) = sBytesEq ++ (itoa o0 ++ [cDash] ++ itoa (o1 - 1)) by simp,
    srvParseRange_single hne (digits_dash_ok hch).1 (digits_dash_ok hch).2]
  by_cases hz : o1 = 0
  · subst hz
    rw [show (0 : Int) - 1 = -1 by rfl, parseOneRange_neg h0 h0max, if_neg (by omega)]
    rfl
  · rw [parseOneRange_closed h0 h0max (by omega) (by unfold maxI64 at *; omega)]
    by_cases hlt : o0 < o1
    · rw [if_neg (by omega), if_pos hlt]
      simp
    · rw [if_pos (by omega), if_neg hlt]
      rfl

theorem blobCall_cliRangeHdr_open {o0 o1 : Int} (h0 : 0 ≤ o0) (h0max : o0 ≤ maxI64) (h1 : o1 < 0) :
    blobCall (cliRangeHdr o0 o1) = some (.range o0 (-1)) := by
  unfold blobCall cliRangeHdr
  rw [if_pos h1]
  have hch : ∀ c ∈ itoa o0 ++ [cDash], isDigit c = true ∨ c = cDash := by
    intro c hc
    simp only [List.mem_append, List.mem_singleton] at hc
    rcases hc with h | h
    · exact Or.inl (itoa_digits h0 c h)
    · exact Or.inr h
  rw [show sBytesEq ++ itoa o0 ++ [cDash] = sBytesEq ++ (itoa o0 ++ [cDash]) by simp,
    srvParseRange_single (by simp) (digits_dash_ok hch).1 (digits_dash_ok hch).2,
    parseOneRange_open h0 h0max]
  rfl

/-! ### `Content-Range` of a 206 answer -/

theorem cutLastSlash_contentRange (s e : Int) {size : Int} (h0 : 0 ≤ size) :
    cutLastSlash (srvContentRange s e size) =
      some (strBytes "bytes " ++ itoa s ++ [cDash] ++ itoa (e - 1), itoa size) := by
  unfold srvContentRange
  rw [show strBytes "bytes " ++ itoa s ++ [cDash] ++ itoa (e - 1) ++ [cSlash] ++ itoa size =
    (strBytes "bytes " ++ itoa s ++ [cDash] ++ itoa (e - 1)) ++ cSlash :: itoa size by simp]
  exact cutLastSlash_append (fun c hc => (digit_not (itoa_digits h0 c hc)).2.1)

theorem srvContentRange_ne_nil (s e size : Int) : srvContentRange s e size ≠ [] := by
  unfold srvContentRange
  simp

/-! ### `Range` of an upload answer -/

theorem parseRangeB_rangeStringB {size : Int} (h0 : 0 ≤ size) (hmax : size ≤ maxI64) :
    parseRangeB (rangeStringB 0 size) = some (0, if size = 1 then 0 else size) := by
  unfold rangeStringB rangeString parseRangeB
  simp only
  have hz : (0 : Int) ≤ (if size - 1 < 0 then 0 else size - 1) := by split <;> omega
  have hzm : (if size - 1 < 0 then 0 else size - 1) ≤ maxI64 := by split <;> (unfold maxI64 at *; omega)
  rw [List.append_assoc, List.singleton_append,
    cutByte_append _ (itoa_no (by omega : (0 : Int) ≤ 0) cDash (by decide))]
  simp only [atoi_itoa 0 (by omega) (by decide), atoi_itoa _ hz hzm]
  unfold parseRange
  by_cases h1 : size - 1 < 0
  · have : size = 0 := by omega
    subst this
    simp
  · by_cases h2 : size = 1
    · subst h2; simp
    · simp only [h1, if_false, h2]
      rw [if_pos (Or.inl (by omega))]
      congr 2
      omega

/-- `chunkSizeFromResponse` reads what the server printed. -/
theorem chunkSizeFromResponse_itoa (r : Resp) {c : Int} (req : Int) (h0 : 0 ≤ c) (hmax : c ≤ maxI64)
    (h : hget r.hdr hChunkMin = itoa c) :
    chunkSizeFromResponse r req = if c > req then c else req := by
  unfold chunkSizeFromResponse
  rw [h, atoi_itoa c h0 hmax]


/-! ### `url.QueryEscape` / `url.QueryUnescape` -/

theorem unhex_hexUpper : ∀ n, n < 16 → unhex (hexUpper n) = some n := by decide
theorem unhex_hexLower : ∀ n, n < 16 → unhex (hexLower n) = some n := by decide

set_option maxRecDepth 100000 in
theorem unreserved_plain : ∀ n, n < 256 → isUnreserved (UInt8.ofNat n) = true →
    UInt8.ofNat n ≠ 37 ∧ UInt8.ofNat n ≠ 43 := by decide

/-- bytes an escaped string never contains: `& = ; < > ? #` -/
def isQueryDelim (x : UInt8) : Bool := x == 38 || x == 61 || x == 59 || x == 60 || x == 62 || x == 63 || x == 35

set_option maxRecDepth 100000 in
theorem escapeByte_alphabet : ∀ n, n < 256 → ∀ x ∈ escapeByte (UInt8.ofNat n), isQueryDelim x = false := by
  decide

theorem queryEscape_alphabet (s : Bytes) : ∀ x ∈ queryEscape s, isQueryDelim x = false := by
  intro x hx
  obtain ⟨c, _, hc⟩ := List.mem_flatMap.mp hx
  have := escapeByte_alphabet c.toNat c.toNat_lt x
  rw [UInt8.ofNat_toNat] at this
  exact this hc

theorem queryEscape_no {s : Bytes} {x : UInt8} (hx : isQueryDelim x = true) : x ∉ queryEscape s := by
  intro h
  rw [queryEscape_alphabet s x h] at hx
  cases hx

theorem queryUnescape_cons (c : UInt8) (rest : Bytes) : queryUnescape (c :: rest) =
    if c = 37 then
      match rest with
      | a :: b :: rest' =>
        match unhex a, unhex b, queryUnescape rest' with
        | some x, some y, some r => some (UInt8.ofNat (x * 16 + y) :: r)
        | _, _, _ => none
      | _ => none
    else if c = 43 then (queryUnescape rest).map (32 :: ·)
    else (queryUnescape rest).map (c :: ·) := by
  conv => lhs; rw [queryUnescape.eq_def]
  rfl

theorem queryUnescape_escapeByte (c : UInt8) (rest : Bytes) :
    queryUnescape (escapeByte c ++ rest) = (queryUnescape rest).map (c :: ·) := by
  unfold escapeByte
  by_cases hu : isUnreserved c = true
  · have h := unreserved_plain c.toNat c.toNat_lt (by rw [UInt8.ofNat_toNat]; exact hu)
    rw [UInt8.ofNat_toNat] at h
    rw [if_pos hu]
    simp only [List.singleton_append]
    rw [queryUnescape_cons, if_neg h.1, if_neg h.2]
  · rw [if_neg hu]
    by_cases hs : (c == 32) = true
    · have : c = 32 := by simpa using hs
      subst this
      rw [if_pos (by decide)]
      simp only [List.singleton_append]
      rw [queryUnescape_cons, if_neg (by decide), if_pos (by decide)]
    · rw [if_neg hs]
      have h1 : c.toNat / 16 < 16 := by have := c.toNat_lt; omega
      have h2 : c.toNat % 16 < 16 := by omega
      have e : UInt8.ofNat (c.toNat / 16 * 16 + c.toNat % 16) = c := by
        rw [Nat.div_add_mod']; exact UInt8.ofNat_toNat
      show queryUnescape (37 :: hexUpper (c.toNat / 16) :: hexUpper (c.toNat % 16) :: rest) = _
      rw [queryUnescape_cons, if_pos rfl]
      simp only [unhex_hexUpper _ h1, unhex_hexUpper _ h2]
      cases queryUnescape rest with
      | none => rfl
      | some r => simp only [e]; rfl

theorem queryUnescape_queryEscape (s : Bytes) : queryUnescape (queryEscape s) = some s := by
  induction s with
  | nil => rfl
  | cons c s ih =>
    show queryUnescape (List.flatMap escapeByte (c :: s)) = _
    rw [List.flatMap_cons, queryUnescape_escapeByte]
    show Option.map _ (queryUnescape (queryEscape s)) = _
    rw [ih]
    rfl

/-! ### `url.Values.Encode` / `url.ParseQuery` -/

def encPair (kv : Bytes × Bytes) : Bytes := queryEscape kv.1 ++ [61] ++ queryEscape kv.2

theorem encPair_no {kv : Bytes × Bytes} {x : UInt8} (hx : isQueryDelim x = true) (h61 : x ≠ 61) : x ∉ encPair kv := by
  unfold encPair
  simp only [List.mem_append, List.mem_singleton, not_or]
  exact ⟨⟨queryEscape_no hx, h61⟩, queryEscape_no hx⟩

theorem encPair_ne_nil (kv : Bytes × Bytes) : encPair kv ≠ [] := by
  unfold encPair
  simp

/-- one piece of a query, as `parseQuery` reads it -/
def parsePiece (piece : Bytes) : Option (Bytes × Bytes) :=
  if piece.contains 59 then none
  else
    let (k, v) := match cutByte 61 piece with
      | some (k, v) => (k, v)
      | none => (piece, [])
    match queryUnescape k, queryUnescape v with
    | some k, some v => some (k, v)
    | _, _ => none

theorem parseQuery_eq (s : Bytes) : parseQuery s = ((splitOn 38 s).filter (· ≠ [])).mapM parsePiece := rfl

theorem parsePiece_encPair (kv : Bytes × Bytes) : parsePiece (encPair kv) = some kv := by
  unfold parsePiece
  have h59 : (encPair kv).contains 59 = false := by
    rw [Bool.eq_false_iff]
    intro h
    exact encPair_no (x := 59) (by decide) (by decide) (List.contains_iff_mem.mp h)
  rw [h59]
  simp only [Bool.false_eq_true, if_false]
  have : cutByte 61 (encPair kv) = some (queryEscape kv.1, queryEscape kv.2) := by
    unfold encPair
    rw [List.append_assoc, List.singleton_append]
    exact cutByte_append _ (queryEscape_no (by decide))
  rw [this]
  simp only [queryUnescape_queryEscape]

theorem parseQuery_join (l : List (Bytes × Bytes)) : parseQuery (join [38] (l.map encPair)) = some l := by
  induction l with
  | nil => rfl
  | cons p l ih =>
    cases l with
    | nil =>
      show parseQuery (encPair p) = _
      rw [parseQuery_eq, splitOn_none (encPair_no (by decide) (by decide)),
        List.filter_cons_of_pos (by simpa using encPair_ne_nil p)]
      simp [parsePiece_encPair]
    | cons q l =>
      show parseQuery (encPair p ++ [38] ++ join [38] ((q :: l).map encPair)) = _
      rw [parseQuery_eq, List.append_assoc, List.singleton_append,
        splitOn_append _ (encPair_no (by decide) (by decide)),
        List.filter_cons_of_pos (by simpa using encPair_ne_nil p), List.mapM_cons, parsePiece_encPair]
      rw [parseQuery_eq] at ih
      rw [ih]
      rfl

theorem encodeQuery_eq (ps : List (Bytes × Bytes)) : encodeQuery ps = join [38] ((sortKeys ps).map encPair) := rfl

/-- `url.ParseQuery(url.Values.Encode())` gives the pairs back, grouped by key in ascending key order. -/
theorem parseQuery_encodeQuery (ps : List (Bytes × Bytes)) : parseQuery (encodeQuery ps) = some (sortKeys ps) := by
  rw [encodeQuery_eq, parseQuery_join]

theorem encodeQuery_alphabet (ps : List (Bytes × Bytes)) {x : UInt8} (hx : isQueryDelim x = true)
    (h61 : x ≠ 61) (h38 : x ≠ 38) : x ∉ encodeQuery ps := by
  rw [encodeQuery_eq]
  generalize sortKeys ps = l
  induction l with
  | nil => simp [join]
  | cons p l ih =>
    cases l with
    | nil => exact encPair_no hx h61
    | cons q l =>
      show x ∉ encPair p ++ [38] ++ join [38] ((q :: l).map encPair)
      simp only [List.mem_append, List.mem_singleton, not_or]
      exact ⟨⟨encPair_no hx h61, h38⟩, ih⟩


/-! ### `encoding/json` strings: the decoder of the encoder's image -/

theorem unJsonStrBody_cons (c : UInt8) (rest : Bytes) : unJsonStrBody (c :: rest) =
    if c = 34 then some ([], rest)
    else if c = 92 then
      match rest with
      | [] => none
      | e :: rest' =>
        if e = 117 then
          match rest' with
          | a :: b :: x :: y :: rest'' =>
            if a = 48 ∧ b = 48 then
              match unhex x, unhex y, unJsonStrBody rest'' with
              | some hx, some hy, some (s, r) => some (UInt8.ofNat (hx * 16 + hy) :: s, r)
              | _, _, _ => none
            else none
          | _ => none
        else
          let d : Option UInt8 :=
            if e = 34 then some 34 else if e = 92 then some 92 else if e = 98 then some 8
            else if e = 102 then some 12 else if e = 110 then some 10 else if e = 114 then some 13
            else if e = 116 then some 9 else none
          match d, unJsonStrBody rest' with
          | some d, some (s, r) => some (d :: s, r)
          | _, _ => none
    else
      match unJsonStrBody rest with
      | some (s, r) => some (c :: s, r)
      | none => none := by
  conv => lhs; rw [unJsonStrBody.eq_def]
  rfl

/-- the classes of `jsonChar`, as a table over all 256 bytes -/
def jsonClass (c : UInt8) : Nat :=
  if c == 34 then 0 else if c == 92 then 1 else if c == 8 then 2 else if c == 12 then 3 else if c == 10 then 4
  else if c == 13 then 5 else if c == 9 then 6 else if c < 32 || c == 60 || c == 62 || c == 38 then 7 else 8

def jsonCharSpec (c : UInt8) : Prop :=
    (jsonClass c = 0 → jsonChar c = [92, 34] ∧ c = 34) ∧
    (jsonClass c = 1 → jsonChar c = [92, 92] ∧ c = 92) ∧
    (jsonClass c = 2 → jsonChar c = [92, 98] ∧ c = 8) ∧
    (jsonClass c = 3 → jsonChar c = [92, 102] ∧ c = 12) ∧
    (jsonClass c = 4 → jsonChar c = [92, 110] ∧ c = 10) ∧
    (jsonClass c = 5 → jsonChar c = [92, 114] ∧ c = 13) ∧
    (jsonClass c = 6 → jsonChar c = [92, 116] ∧ c = 9) ∧
    (jsonClass c = 7 → jsonChar c = [92, 117, 48, 48, hexLower (c.toNat / 16), hexLower (c.toNat % 16)]) ∧
    (jsonClass c = 8 → jsonChar c = [c] ∧ c ≠ 34 ∧ c ≠ 92) ∧
    jsonClass c < 9

instance (c : UInt8) : Decidable (jsonCharSpec c) := by unfold jsonCharSpec; infer_instance

set_option maxRecDepth 100000 in
theorem jsonChar_table : ∀ n, n < 256 → jsonCharSpec (UInt8.ofNat n) := by decide

theorem unJsonStrBody_jsonChar (c : UInt8) {tail s r : Bytes} (h : unJsonStrBody tail = some (s, r)) :
    unJsonStrBody (jsonChar c ++ tail) = some (c :: s, r) := by
  have T := jsonChar_table c.toNat c.toNat_lt
  rw [UInt8.ofNat_toNat] at T
  unfold jsonCharSpec at T
  obtain ⟨t0, t1, t2, t3, t4, t5, t6, t7, t8, tlt⟩ := T
  have hcase : jsonClass c = 0 ∨ jsonClass c = 1 ∨ jsonClass c = 2 ∨ jsonClass c = 3 ∨ jsonClass c = 4 ∨
      jsonClass c = 5 ∨ jsonClass c = 6 ∨ jsonClass c = 7 ∨ jsonClass c = 8 := by omega
  rcases hcase with k | k | k | k | k | k | k | k | k
  · obtain ⟨e, rfl⟩ := t0 k
    rw [e]; simp [unJsonStrBody_cons, h]
  · obtain ⟨e, rfl⟩ := t1 k
    rw [e]; simp [unJsonStrBody_cons, h]
  · obtain ⟨e, rfl⟩ := t2 k
    rw [e]; simp [unJsonStrBody_cons, h]
  · obtain ⟨e, rfl⟩ := t3 k
    rw [e]; simp [unJsonStrBody_cons, h]
  · obtain ⟨e, rfl⟩ := t4 k
    rw [e]; simp [unJsonStrBody_cons, h]
  · obtain ⟨e, rfl⟩ := t5 k
    rw [e]; simp [unJsonStrBody_cons, h]
  · obtain ⟨e, rfl⟩ := t6 k
    rw [e]; simp [unJsonStrBody_cons, h]
  · rw [t7 k]
    have h1 : c.toNat / 16 < 16 := by have := c.toNat_lt; omega
    have h2 : c.toNat % 16 < 16 := by omega
    have e : UInt8.ofNat (c.toNat / 16 * 16 + c.toNat % 16) = c := by
      rw [Nat.div_add_mod']; exact UInt8.ofNat_toNat
    simp [unJsonStrBody_cons, h, unhex_hexLower _ h1, unhex_hexLower _ h2, e]
  · obtain ⟨e, n34, n92⟩ := t8 k
    rw [e]
    simp [unJsonStrBody_cons, h, n34, n92]

theorem unJsonStrBody_flatMap (s rest : Bytes) :
    unJsonStrBody (s.flatMap jsonChar ++ 34 :: rest) = some (s, rest) := by
  induction s with
  | nil => simp [unJsonStrBody_cons]
  | cons c s ih =>
    rw [List.flatMap_cons, List.append_assoc]
    exact unJsonStrBody_jsonChar c ih

theorem unJsonStr_jsonStr (s rest : Bytes) : unJsonStr (jsonStr s ++ rest) = some (s, rest) := by
  unfold jsonStr
  simp only [List.cons_append, List.append_assoc]
  show unJsonStrBody _ = _
  exact unJsonStrBody_flatMap s rest

theorem unJsonStrs_join (l : List Bytes) (x : Bytes) (rest : Bytes) (fuel : Nat) (hf : l.length < fuel) :
    unJsonStrs fuel (join [44] ((x :: l).map jsonStr) ++ 93 :: rest) = some (x :: l, rest) := by
  induction l generalizing x fuel with
  | nil =>
    obtain ⟨f, rfl⟩ : ∃ f, fuel = f + 1 := ⟨fuel - 1, by simp at hf; omega⟩
    show unJsonStrs (f + 1) (jsonStr x ++ 93 :: rest) = _
    simp [unJsonStrs, unJsonStr_jsonStr]
  | cons y l ih =>
    obtain ⟨f, rfl⟩ : ∃ f, fuel = f + 1 := ⟨fuel - 1, by simp at hf; omega⟩
    show unJsonStrs (f + 1) (jsonStr x ++ [44] ++ join [44] ((y :: l).map jsonStr) ++ 93 :: rest) = _
    have e : jsonStr x ++ [44] ++ join [44] ((y :: l).map jsonStr) ++ 93 :: rest =
        jsonStr x ++ (44 :: (join [44] ((y :: l).map jsonStr) ++ 93 :: rest)) := by simp
    rw [e]
    simp only [unJsonStrs, unJsonStr_jsonStr]
    rw [ih y f (by simp at hf ⊢; omega)]

theorem join_length_ge (l : List Bytes) : l.length ≤ (join [44] (l.map jsonStr)).length + 1 := by
  induction l with
  | nil => simp [join]
  | cons x l ih =>
    cases l with
    | nil => simp [join]
    | cons y l =>
      show _ ≤ (jsonStr x ++ [44] ++ join [44] ((y :: l).map jsonStr)).length + 1
      simp only [List.length_append, List.length_cons, List.length_nil] at ih ⊢
      omega

theorem unJsonStrList_jsonStrList (l : List Bytes) (rest : Bytes) :
    unJsonStrList (jsonStrList l ++ rest) = some (l, rest) := by
  cases l with
  | nil =>
    unfold unJsonStrList jsonStrList
    rw [cutPrefix_append]
  | cons x l =>
    unfold unJsonStrList
    have e : jsonStrList (x :: l) ++ rest = 91 :: (join [44] ((x :: l).map jsonStr) ++ 93 :: rest) := by
      simp [jsonStrList]
    rw [e]
    have hn : cutPrefix (strBytes "null") (91 :: (join [44] ((x :: l).map jsonStr) ++ 93 :: rest)) = none := by
      unfold cutPrefix
      rw [if_neg]
      rw [show strBytes "null" = [110, 117, 108, 108] by decide]
      simp [List.isPrefixOf]
    rw [hn]
    simp only
    apply unJsonStrs_join
    have := join_length_ge (x :: l)
    simp only [List.length_cons, List.length_append] at this ⊢
    omega

/-- `decTagsImage` is a left inverse of `encTags`, for every repository name and every list of items. -/
theorem decTagsImage_encTags (repo : Bytes) (l : List Bytes) : decTagsImage (encTags repo l) = some l := by
  unfold decTagsImage encTags
  simp only [List.append_assoc, cutPrefix_append, unJsonStr_jsonStr, unJsonStrList_jsonStrList]

/-- `decCatalogImage` is a left inverse of `encCatalog`. -/
theorem decCatalogImage_encCatalog (l : List Bytes) : decCatalogImage (encCatalog l) = some l := by
  unfold decCatalogImage encCatalog
  simp only [List.append_assoc, cutPrefix_append, unJsonStrList_jsonStrList]


/-! ### The alphabet of a valid repository name: lower-case letters, digits, dot, underscore, dash, slash -/

def isRepoChar (c : UInt8) : Bool := isAlnumLower c || c == cDot || c == cUnder || c == cDash || c == cSlash

theorem isSeparator_repoChar {r : Bytes} (h : isSeparator r = true) : ∀ c ∈ r, isRepoChar c = true := by
  simp only [isSeparator, Bool.or_eq_true, beq_iff_eq, Bool.and_eq_true, List.all_eq_true] at h
  intro c hc
  rcases h with ((h | h) | h) | h
  · subst h; simp at hc; subst hc; decide
  · subst h; simp at hc; subst hc; decide
  · subst h; simp at hc; subst hc; decide
  · have := h.2 c hc; subst this; decide

theorem pathTail_repoChar : ∀ (fuel : Nat) (l : Bytes), pathTail fuel l = true → ∀ c ∈ l, isRepoChar c = true
  | _, [], _ => by simp
  | 0, _ :: _, h => by simp [pathTail] at h
  | fuel + 1, a :: rest, h => by
    unfold pathTail at h
    split at h
    · rename_i ha
      intro c hc
      rcases List.mem_cons.mp hc with hc | hc
      · subst hc; simp [isRepoChar, ha]
      · exact pathTail_repoChar fuel rest h c hc
    · simp only at h
      have hsplit := List.takeWhile_append_dropWhile
        (p := fun c => !isAlnumLower c) (l := a :: rest)
      generalize hsep : (a :: rest).takeWhile (fun c => !isAlnumLower c) = sep at h hsplit
      generalize hafter : (a :: rest).dropWhile (fun c => !isAlnumLower c) = after at h hsplit
      simp only [Bool.and_eq_true, bne_iff_ne] at h
      obtain ⟨⟨hs, hne⟩, ht⟩ := h
      cases after with
      | nil => exact absurd rfl hne
      | cons x after' =>
        have hx : isAlnumLower x = true := by simpa using dropWhile_head_false _ hafter
        simp only [List.drop_succ_cons, List.drop_zero] at ht
        intro c hc
        rw [← hsplit] at hc
        rcases List.mem_append.mp hc with hc | hc
        · exact isSeparator_repoChar hs c hc
        · rcases List.mem_cons.mp hc with hc | hc
          · subst hc; simp [isRepoChar, hx]
          · exact pathTail_repoChar fuel after' ht c hc

theorem isPathComponent_repoChar {s : Bytes} (h : isPathComponent s = true) :
    ∀ c ∈ s, isRepoChar c = true := by
  cases s with
  | nil => simp
  | cons a rest =>
    simp only [isPathComponent, Bool.and_eq_true] at h
    intro c hc
    rcases List.mem_cons.mp hc with hc | hc
    · subst hc; simp [isRepoChar, h.1]
    · exact pathTail_repoChar _ _ h.2 c hc

theorem isRepo_repoChar {p : Bytes} (h : isRepo p = true) : ∀ c ∈ p, isRepoChar c = true := by
  intro c hc
  rcases mem_splitOn cSlash hc with hc | ⟨q, hq, hcq⟩
  · subst hc; decide
  · exact isPathComponent_repoChar (List.all_eq_true.mp h q hq) c hcq

set_option maxRecDepth 100000 in
theorem repoChar_not_delim : ∀ n, n < 256 → isRepoChar (UInt8.ofNat n) = true → isQueryDelim (UInt8.ofNat n) = false := by
  decide

theorem isRepo_no {p : Bytes} (h : isRepo p = true) {x : UInt8} (hx : isQueryDelim x = true) : x ∉ p := by
  intro hc
  have := repoChar_not_delim x.toNat x.toNat_lt (by rw [UInt8.ofNat_toNat]; exact isRepo_repoChar h x hc)
  rw [UInt8.ofNat_toNat, hx] at this
  cases this

theorem b64_encChar_not_delim : ∀ n, n < 64 → isQueryDelim (B64Url.encChar n) = false := by decide

theorem b64_encode_no (x : Bytes) {c : UInt8} (hc : isQueryDelim c = true) : c ∉ B64Url.encode x := by
  intro h
  rw [B64Url.encode_eq_map] at h
  obtain ⟨n, hn, rfl⟩ := List.mem_map.mp h
  rw [b64_encChar_not_delim n (B64Url.vals_lt x n hn)] at hc
  cases hc

theorem mem_lit_no {lit : Bytes} {x : UInt8} (h : lit.contains x = false) : x ∉ lit := by
  intro hc
  rw [List.contains_iff_mem.mpr hc] at h
  cases h

/-! ### `Location` of an upload: the ID inside it comes back -/

theorem uploadPath_eq (repo id : Bytes) :
    uploadPath B64Url.encode { kind := .blobUploadInfo, repo := repo, uploadID := id } =
      sV2Slash ++ repo ++ sUploadsSlash ++ B64Url.encode id := rfl

theorem locationForUploadID_valid {repo id : Bytes} (hR : isRepo repo = true) (hid : id ≠ [])
    (hu : B64Url.validUTF8 id = true) :
    locationForUploadID repo id = some (sV2Slash ++ repo ++ sUploadsSlash ++ B64Url.encode id) := by
  unfold locationForUploadID
  simp only [construct, uploadPath_eq]
  rw [parse_upload_valid B64Url.encode B64Url.decode B64Url.validUTF8 B64Url.decode_encode B64Url.encode_ne_nil
    B64Url.encode_no_slash mGET _ hR hid hu]
  simp

theorem uploadPath_no {repo id : Bytes} (hR : isRepo repo = true) {x : UInt8} (hx : isQueryDelim x = true) :
    x ∉ sV2Slash ++ repo ++ sUploadsSlash ++ B64Url.encode id := by
  simp only [List.mem_append, not_or]
  refine ⟨⟨⟨?_, isRepo_no hR hx⟩, ?_⟩, b64_encode_no id hx⟩
  · intro h
    have : isQueryDelim x = false := by
      simp only [sV2Slash_eq, List.mem_cons, List.not_mem_nil, or_false] at h
      rcases h with rfl | rfl | rfl | rfl <;> decide
    rw [this] at hx; cases hx
  · intro h
    have : isQueryDelim x = false := by
      rw [sUploadsSlash_eq] at h
      simp only [List.mem_cons, List.not_mem_nil, or_false] at h
      rcases h with rfl | rfl | rfl | rfl | rfl | rfl | rfl | rfl | rfl | rfl | rfl | rfl | rfl | rfl | rfl <;> decide
    rw [this] at hx; cases hx

theorem splitTarget_plain {p : Bytes} (h : (63 : UInt8) ∉ p) : splitTarget p = (p, []) := by
  unfold splitTarget
  rw [cutByte_none h]

theorem splitTarget_query {p : Bytes} (q : Bytes) (h : (63 : UInt8) ∉ p) : splitTarget (p ++ 63 :: q) = (p, q) := by
  unfold splitTarget
  rw [cutByte_append _ h]

/-- The PATCH / GET that goes to the location reaches the upload the backend named. -/
theorem classifyTarget_location {repo id : Bytes} (hR : isRepo repo = true) (hid : id ≠ [])
    (hu : B64Url.validUTF8 id = true) (m : Bytes) :
    classifyTarget m (sV2Slash ++ repo ++ sUploadsSlash ++ B64Url.encode id) =
      if m = mGET then .ok { kind := .blobUploadInfo, repo := repo, uploadID := id }
      else if m = mPATCH then .ok { kind := .blobUploadChunk, repo := repo, uploadID := id }
      else if m = mPUT then .error .badlyFormedDigest
      else .error .methodNotAllowed := by
  unfold classifyTarget
  rw [splitTarget_plain (uploadPath_no hR (by decide))]
  simp only [show parseQuery [] = some [] from rfl]
  rw [parse_upload_valid B64Url.encode B64Url.decode B64Url.validUTF8 B64Url.decode_encode B64Url.encode_ne_nil
    B64Url.encode_no_slash m _ hR hid hu]
  simp [qget, isDigest]

/-- The final PUT goes to the location with the digest added (`urlWithDigest`): the router sees the upload
the backend named and the digest the client committed. -/
theorem classifyTarget_commit {repo id dg : Bytes} (hR : isRepo repo = true) (hid : id ≠ [])
    (hu : B64Url.validUTF8 id = true) (hd : isDigest dg = true) :
    classifyTarget mPUT (urlWithDigest (sV2Slash ++ repo ++ sUploadsSlash ++ B64Url.encode id) dg) =
      .ok { kind := .blobCompleteUpload, repo := repo, uploadID := id, digest := dg } := by
  have h63 := uploadPath_no (id := id) hR (x := 63) (by decide)
  unfold urlWithDigest
  rw [cutByte_none h63]
  simp only
  unfold classifyTarget
  rw [List.append_assoc, List.singleton_append, splitTarget_query _ h63]
  have hq : parseQuery (strBytes "digest=" ++ queryEscape dg) = some [(qDigest, dg)] := by
    have := parseQuery_join [(qDigest, dg)]
    simp only [List.map_cons, List.map_nil, join, encPair] at this
    rw [show queryEscape qDigest ++ [61] = strBytes "digest=" by decide] at this
    exact this
  simp only [hq]
  rw [parse_upload_valid B64Url.encode B64Url.decode B64Url.validUTF8 B64Url.decode_encode B64Url.encode_ne_nil
    B64Url.encode_no_slash mPUT _ hR hid hu]
  rw [if_neg (by decide), if_neg (by decide), if_pos rfl]
  simp [qget, hd]


/-! ### Header names are pairwise different (generated: one `decide` per ordered pair) -/

@[simp] theorem hContentType_beq_hContentLength : (hContentType == hContentLength) = false := by decide
@[simp] theorem hContentType_beq_hContentRange : (hContentType == hContentRange) = false := by decide
@[simp] theorem hContentType_beq_hDigest : (hContentType == hDigest) = false := by decide
@[simp] theorem hContentType_beq_hAcceptRanges : (hContentType == hAcceptRanges) = false := by decide
@[simp] theorem hContentType_beq_hLocation : (hContentType == hLocation) = false := by decide
@[simp] theorem hContentType_beq_hRange : (hContentType == hRange) = false := by decide
@[simp] theorem hContentType_beq_hChunkMin : (hContentType == hChunkMin) = false := by decide
@[simp] theorem hContentType_beq_hSubject : (hContentType == hSubject) = false := by decide
@[simp] theorem hContentType_beq_hLink : (hContentType == hLink) = false := by decide
@[simp] theorem hContentType_beq_hAPIVersion : (hContentType == hAPIVersion) = false := by decide
@[simp] theorem hContentLength_beq_hContentType : (hContentLength == hContentType) = false := by decide
@[simp] theorem hContentLength_beq_hContentRange : (hContentLength == hContentRange) = false := by decide
@[simp] theorem hContentLength_beq_hDigest : (hContentLength == hDigest) = false := by decide
@[simp] theorem hContentLength_beq_hAcceptRanges : (hContentLength == hAcceptRanges) = false := by decide
@[simp] theorem hContentLength_beq_hLocation : (hContentLength == hLocation) = false := by decide
@[simp] theorem hContentLength_beq_hRange : (hContentLength == hRange) = false := by decide
@[simp] theorem hContentLength_beq_hChunkMin : (hContentLength == hChunkMin) = false := by decide
@[simp] theorem hContentLength_beq_hSubject : (hContentLength == hSubject) = false := by decide
@[simp] theorem hContentLength_beq_hLink : (hContentLength == hLink) = false := by decide
@[simp] theorem hContentLength_beq_hAPIVersion : (hContentLength == hAPIVersion) = false := by decide
@[simp] theorem hContentRange_beq_hContentType : (hContentRange == hContentType) = false := by decide
@[simp] theorem hContentRange_beq_hContentLength : (hContentRange == hContentLength) = false := by decide
@[simp] theorem hContentRange_beq_hDigest : (hContentRange == hDigest) = false := by decide
@[simp] theorem hContentRange_beq_hAcceptRanges : (hContentRange == hAcceptRanges) = false := by decide
@[simp] theorem hContentRange_beq_hLocation : (hContentRange == hLocation) = false := by decide
@[simp] theorem hContentRange_beq_hRange : (hContentRange == hRange) = false := by decide
@[simp] theorem hContentRange_beq_hChunkMin : (hContentRange == hChunkMin) = false := by decide
@[simp] theorem hContentRange_beq_hSubject : (hContentRange == hSubject) = false := by decide
@[simp] theorem hContentRange_beq_hLink : (hContentRange == hLink) = false := by decide
@[simp] theorem hContentRange_beq_hAPIVersion : (hContentRange == hAPIVersion) = false := by decide
@[simp] theorem hDigest_beq_hContentType : (hDigest == hContentType) = false := by decide
@[simp] theorem hDigest_beq_hContentLength : (hDigest == hContentLength) = false := by decide
@[simp] theorem hDigest_beq_hContentRange : (hDigest == hContentRange) = false := by decide
@[simp] theorem hDigest_beq_hAcceptRanges : (hDigest == hAcceptRanges) = false := by decide
@[simp] theorem hDigest_beq_hLocation : (hDigest == hLocation) = false := by decide
@[simp] theorem hDigest_beq_hRange : (hDigest == hRange) = false := by decide
@[simp] theorem hDigest_beq_hChunkMin : (hDigest == hChunkMin) = false := by decide
@[simp] theorem hDigest_beq_hSubject : (hDigest == hSubject) = false := by decide
@[simp] theorem hDigest_beq_hLink : (hDigest == hLink) = false := by decide
@[simp] theorem hDigest_beq_hAPIVersion : (hDigest == hAPIVersion) = false := by decide
@[simp] theorem hAcceptRanges_beq_hContentType : (hAcceptRanges == hContentType) = false := by decide
@[simp] theorem hAcceptRanges_beq_hContentLength : (hAcceptRanges == hContentLength) = false := by decide
@[simp] theorem hAcceptRanges_beq_hContentRange : (hAcceptRanges == hContentRange) = false := by decide
@[simp] theorem hAcceptRanges_beq_hDigest : (hAcceptRanges == hDigest) = false := by decide
@[simp] theorem hAcceptRanges_beq_hLocation : (hAcceptRanges == hLocation) = false := by decide
@[simp] theorem hAcceptRanges_beq_hRange : (hAcceptRanges == hRange) = false := by decide
@[simp] theorem hAcceptRanges_beq_hChunkMin : (hAcceptRanges == hChunkMin) = false := by decide
@[simp] theorem hAcceptRanges_beq_hSubject : (hAcceptRanges == hSubject) = false := by decide
@[simp] theorem hAcceptRanges_beq_hLink : (hAcceptRanges == hLink) = false := by decide
@[simp] theorem hAcceptRanges_beq_hAPIVersion : (hAcceptRanges == hAPIVersion) = false := by decide
@[simp] theorem hLocation_beq_hContentType : (hLocation == hContentType) = false := by decide
@[simp] theorem hLocation_beq_hContentLength : (hLocation == hContentLength) = false := by decide
@[simp] theorem hLocation_beq_hContentRange : (hLocation == hContentRange) = false := by decide
@[simp] theorem hLocation_beq_hDigest : (hLocation == hDigest) = false := by decide
@[simp] theorem hLocation_beq_hAcceptRanges : (hLocation == hAcceptRanges) = false := by decide
@[simp] theorem hLocation_beq_hRange : (hLocation == hRange) = false := by decide
@[simp] theorem hLocation_beq_hChunkMin : (hLocation == hChunkMin) = false := by decide
@[simp] theorem hLocation_beq_hSubject : (hLocation == hSubject) = false := by decide
@[simp] theorem hLocation_beq_hLink : (hLocation == hLink) = false := by decide
@[simp] theorem hLocation_beq_hAPIVersion : (hLocation == hAPIVersion) = false := by decide
@[simp] theorem hRange_beq_hContentType : (hRange == hContentType) = false := by decide
@[simp] theorem hRange_beq_hContentLength : (hRange == hContentLength) = false := by decide
@[simp] theorem hRange_beq_hContentRange : (hRange == hContentRange) = false := by decide
@[simp] theorem hRange_beq_hDigest : (hRange == hDigest) = false := by decide
@[simp] theorem hRange_beq_hAcceptRanges : (hRange == hAcceptRanges) = false := by decide
@[simp] theorem hRange_beq_hLocation : (hRange == hLocation) = false := by decide
@[simp] theorem hRange_beq_hChunkMin : (hRange == hChunkMin) = false := by decide
@[simp] theorem hRange_beq_hSubject : (hRange == hSubject) = false := by decide
@[simp] theorem hRange_beq_hLink : (hRange == hLink) = false := by decide
@[simp] theorem hRange_beq_hAPIVersion : (hRange == hAPIVersion) = false := by decide
@[simp] theorem hChunkMin_beq_hContentType : (hChunkMin == hContentType) = false := by decide
@[simp] theorem hChunkMin_beq_hContentLength : (hChunkMin == hContentLength) = false := by decide
@[simp] theorem hChunkMin_beq_hContentRange : (hChunkMin == hContentRange) = false := by decide
@[simp] theorem hChunkMin_beq_hDigest : (hChunkMin == hDigest) = false := by decide
@[simp] theorem hChunkMin_beq_hAcceptRanges : (hChunkMin == hAcceptRanges) = false := by decide
@[simp] theorem hChunkMin_beq_hLocation : (hChunkMin == hLocation) = false := by decide
@[simp] theorem hChunkMin_beq_hRange : (hChunkMin == hRange) = false := by decide
@[simp] theorem hChunkMin_beq_hSubject : (hChunkMin == hSubject) = false := by decide
@[simp] theorem hChunkMin_beq_hLink : (hChunkMin == hLink) = false := by decide
@[simp] theorem hChunkMin_beq_hAPIVersion : (hChunkMin == hAPIVersion) = false := by decide
@[simp] theorem hSubject_beq_hContentType : (hSubject == hContentType) = false := by decide
@[simp] theorem hSubject_beq_hContentLength : (hSubject == hContentLength) = false := by decide
@[simp] theorem hSubject_beq_hContentRange : (hSubject == hContentRange) = false := by decide
@[simp] theorem hSubject_beq_hDigest : (hSubject == hDigest) = false := by decide
@[simp] theorem hSubject_beq_hAcceptRanges : (hSubject == hAcceptRanges) = false := by decide
@[simp] theorem hSubject_beq_hLocation : (hSubject == hLocation) = false := by decide
@[simp] theorem hSubject_beq_hRange : (hSubject == hRange) = false := by decide
@[simp] theorem hSubject_beq_hChunkMin : (hSubject == hChunkMin) = false := by decide
@[simp] theorem hSubject_beq_hLink : (hSubject == hLink) = false := by decide
@[simp] theorem hSubject_beq_hAPIVersion : (hSubject == hAPIVersion) = false := by decide
@[simp] theorem hLink_beq_hContentType : (hLink == hContentType) = false := by decide
@[simp] theorem hLink_beq_hContentLength : (hLink == hContentLength) = false := by decide
@[simp] theorem hLink_beq_hContentRange : (hLink == hContentRange) = false := by decide
@[simp] theorem hLink_beq_hDigest : (hLink == hDigest) = false := by decide
@[simp] theorem hLink_beq_hAcceptRanges : (hLink == hAcceptRanges) = false := by decide
@[simp] theorem hLink_beq_hLocation : (hLink == hLocation) = false := by decide
@[simp] theorem hLink_beq_hRange : (hLink == hRange) = false := by decide
@[simp] theorem hLink_beq_hChunkMin : (hLink == hChunkMin) = false := by decide
@[simp] theorem hLink_beq_hSubject : (hLink == hSubject) = false := by decide
@[simp] theorem hLink_beq_hAPIVersion : (hLink == hAPIVersion) = false := by decide
@[simp] theorem hAPIVersion_beq_hContentType : (hAPIVersion == hContentType) = false := by decide
@[simp] theorem hAPIVersion_beq_hContentLength : (hAPIVersion == hContentLength) = false := by decide
@[simp] theorem hAPIVersion_beq_hContentRange : (hAPIVersion == hContentRange) = false := by decide
@[simp] theorem hAPIVersion_beq_hDigest : (hAPIVersion == hDigest) = false := by decide
@[simp] theorem hAPIVersion_beq_hAcceptRanges : (hAPIVersion == hAcceptRanges) = false := by decide
@[simp] theorem hAPIVersion_beq_hLocation : (hAPIVersion == hLocation) = false := by decide
@[simp] theorem hAPIVersion_beq_hRange : (hAPIVersion == hRange) = false := by decide
@[simp] theorem hAPIVersion_beq_hChunkMin : (hAPIVersion == hChunkMin) = false := by decide
@[simp] theorem hAPIVersion_beq_hSubject : (hAPIVersion == hSubject) = false := by decide
@[simp] theorem hAPIVersion_beq_hLink : (hAPIVersion == hLink) = false := by decide

@[simp] theorem hget_nil (k : Bytes) : hget [] k = [] := rfl

@[simp] theorem hget_cons_self (k v : Bytes) (h : Header) : hget ((k, v) :: h) k = v := by
  simp [hget, qget]

theorem hget_cons_ne {k' k : Bytes} (v : Bytes) (h : Header) (hne : (k' == k) = false) :
    hget ((k', v) :: h) k = hget h k := by
  simp [hget, qget, hne]

theorem hget_append_left {h1 h2 : Header} {k : Bytes} (hk : ∀ kv ∈ h1, (kv.1 == k) = false) :
    hget (h1 ++ h2) k = hget h2 k := by
  induction h1 with
  | nil => rfl
  | cons kv h1 ih =>
    obtain ⟨k', v⟩ := kv
    rw [List.cons_append, hget_cons_ne _ _ (hk (k', v) (by simp))]
    exact ih (fun kv hkv => hk kv (List.mem_cons_of_mem _ hkv))


/-! ### Readers -/

theorem isDigest_hashable {d : Bytes} (h : isDigest d = true) : digestHashable d = true := by
  unfold isDigest at h
  unfold digestHashable cutByte
  simp only at h
  generalize hdrop : d.dropWhile (fun c => c != cColon) = dr at h
  cases dr with
  | nil => simp at h
  | cons x enc =>
    simp only at h ⊢
    cases hl : encodedLen (d.takeWhile (fun c => c != cColon)) with
    | none => simp [hl] at h
    | some n =>
      rcases encodedLen_some hl with e | e | e <;> simp [e]

/-- Reading a verified reader whose descriptor describes the body ends cleanly with the body. -/
theorem readAll_honest (H : Bytes → Bytes) (d : Desc) (content : Bytes)
    (hlen : (content.length : Int) = d.size) (hH : H content = d.digest) :
    readAll H d true [content] = .eof content := by
  unfold readAll
  have hs : d.size.toNat = content.length := by omega
  have hn : ¬ d.size < 0 := by omega
  simp [BlobReader.readAll, hs, hH, hn]

/-- … and never cleanly otherwise: a body that is not what the descriptor says ends in an error. -/
theorem readAll_dishonest (H : Bytes → Bytes) (d : Desc) (content : Bytes) (h0 : 0 ≤ d.size)
    (h : (content.length : Int) ≠ d.size ∨ H content ≠ d.digest) :
    (readAll H d true [content]).clean = false := by
  unfold readAll
  have hn : ¬ d.size < 0 := by omega
  simp only [hn, ↓reduceIte, BlobReader.readAll, List.nil_append]
  split
  · rfl
  · by_cases hl : content.length ≠ d.size.toNat
    · simp [hl, BlobReader.Res.clean]
    · have hl' : content.length = d.size.toNat := by simpa using hl
      rcases h with h | h
      · exact absurd (by omega) h
      · simp [hl', h, BlobReader.Res.clean]

/-- an unverified reader (ranged read) relays what arrives, up to the descriptor's size -/
theorem readAll_unverified (H : Bytes → Bytes) (d : Desc) (content : Bytes) (hlen : (content.length : Int) ≤ d.size) :
    readAll H d false [content] = .eof content := by
  unfold readAll
  have hs : ¬ content.length > d.size.toNat := by omega
  have hn : ¬ d.size < 0 := by omega
  simp [BlobReader.readAll, hs, hn]

/-- F36: a descriptor with a negative size (a `Content-Range` total the server made up) never reads cleanly,
verified or not, whatever arrives — not even nothing. -/
theorem readAll_negative_size (H : Bytes → Bytes) (d : Desc) (v : Bool) (chunks : List Bytes) (hn : d.size < 0) :
    (readAll H d v chunks).clean = false := by
  unfold readAll
  simp [hn, BlobReader.Res.clean]


/-! ### Lists: the Link header and the request it leads to -/

theorem sortKeys_n_last (a b : Bytes) : sortKeys [(qN, a), (qLast, b)] = [(qLast, b), (qN, a)] := by
  have h : (compare qN qLast != Ordering.gt) = false := by decide
  simp [sortKeys, insertKey, h]

/-- the query of a list request, however it was written, names the page size once and is otherwise about `last` -/
def QueryOK (n : Int) (qs : List (Bytes × Bytes)) : Prop := ∀ x, querySet qs qLast x = [(qN, itoa n), (qLast, x)]

theorem queryOK_listQuery (r : Request) (hn : 0 ≤ r.listN) : QueryOK r.listN (listQuery r) := by
  intro x
  have h1 : (qN ≠ qLast) := by decide
  unfold querySet listQuery
  rw [if_pos hn]
  by_cases hl : r.listLast ≠ []
  · rw [if_pos hl]; simp [h1]
  · rw [if_neg hl]; simp [h1]

theorem queryOK_sorted (n : Int) (x : Bytes) : QueryOK n [(qLast, x), (qN, itoa n)] := by
  intro y
  have h1 : (qN ≠ qLast) := by decide
  simp [querySet, h1]

theorem parseQuery_link {n : Int} {qs : List (Bytes × Bytes)} (hq : QueryOK n qs) (last : Bytes) :
    parseQuery (encodeQuery (querySet qs qLast last)) = some [(qLast, last), (qN, itoa n)] := by
  rw [parseQuery_encodeQuery, hq last, sortKeys_n_last]

def tagsPath (R : Bytes) : Bytes := sV2Slash ++ R ++ strBytes "/tags/list"
def catalogPath : Bytes := strBytes "/v2/_catalog"

theorem tagsPath_no {R : Bytes} (hR : isRepo R = true) {x : UInt8} (hx : isQueryDelim x = true) : x ∉ tagsPath R := by
  unfold tagsPath
  simp only [List.mem_append, not_or]
  refine ⟨⟨?_, isRepo_no hR hx⟩, ?_⟩
  · intro h
    have : isQueryDelim x = false := by
      simp only [sV2Slash_eq, List.mem_cons, List.not_mem_nil, or_false] at h
      rcases h with rfl | rfl | rfl | rfl <;> decide
    rw [this] at hx; cases hx
  · intro h
    have : isQueryDelim x = false := by
      rw [show strBytes "/tags/list" = [47, 116, 97, 103, 115, 47, 108, 105, 115, 116] by decide] at h
      simp only [List.mem_cons, List.not_mem_nil, or_false] at h
      rcases h with rfl | rfl | rfl | rfl | rfl | rfl | rfl | rfl | rfl | rfl <;> decide
    rw [this] at hx; cases hx

theorem catalogPath_no {x : UInt8} (hx : isQueryDelim x = true) : x ∉ catalogPath := by
  intro h
  have : isQueryDelim x = false := by
    rw [show catalogPath = [47, 118, 50, 47, 95, 99, 97, 116, 97, 108, 111, 103] by decide] at h
    simp only [List.mem_cons, List.not_mem_nil, or_false] at h
    rcases h with rfl | rfl | rfl | rfl | rfl | rfl | rfl | rfl | rfl | rfl | rfl | rfl <;> decide
  rw [this] at hx; cases hx

theorem listParams_n_last {n : Int} (h0 : 0 ≤ n) (hmax : n ≤ maxI64) (last : Bytes) (r0 : Request) :
    listParams (qget [(qLast, last), (qN, itoa n)]) r0 = .ok { r0 with listN := n, listLast := last } := by
  have h1 : (qLast == qN) = false := by decide
  have e1 : qget [(qLast, last), (qN, itoa n)] qN = itoa n := by simp [qget, h1]
  have e2 : qget [(qLast, last), (qN, itoa n)] qLast = last := by simp [qget]
  unfold listParams
  simp only [e1, e2, if_pos (itoa_ne_nil' h0), atoi_itoa n h0 hmax]

theorem classifyTarget_tagsLink {R : Bytes} (hR : isRepo R = true) {n : Int} (h0 : 0 ≤ n) (hmax : n ≤ maxI64)
    {qs : List (Bytes × Bytes)} (hq : QueryOK n qs) (last : Bytes) :
    classifyTarget mGET (tagsPath R ++ [63] ++ encodeQuery (querySet qs qLast last)) =
      .ok { kind := .tagsList, repo := R, listN := n, listLast := last } := by
  unfold classifyTarget
  rw [List.append_assoc, List.singleton_append, splitTarget_query _ (tagsPath_no hR (by decide))]
  simp only [parseQuery_link hq last]
  unfold tagsPath
  rw [parse_tagsList_valid _ _ _ hR, listParams_n_last h0 hmax]

theorem classifyTarget_catalogLink {n : Int} (h0 : 0 ≤ n) (hmax : n ≤ maxI64)
    {qs : List (Bytes × Bytes)} (hq : QueryOK n qs) (last : Bytes) :
    classifyTarget mGET (catalogPath ++ [63] ++ encodeQuery (querySet qs qLast last)) =
      .ok { kind := .catalogList, listN := n, listLast := last } := by
  unfold classifyTarget
  rw [List.append_assoc, List.singleton_append, splitTarget_query _ (catalogPath_no (by decide))]
  simp only [parseQuery_link hq last]
  unfold catalogPath
  rw [parse_catalog_valid, listParams_n_last h0 hmax]



theorem nextLink_none (urlOK : Bytes → Bool) (r : Resp) (l : Bytes) (h : hget r.hdr hLink = []) :
    nextLink urlOK r l = .viaLast l := by
  unfold nextLink
  simp [h]

theorem nextLink_link (urlOK : Bytes → Bool) (r : Resp) (l target : Bytes) (h62 : (62 : UInt8) ∉ target)
    (h : hget r.hdr hLink = [60] ++ target ++ strBytes ">;rel=\"next\"") :
    nextLink urlOK r l = if urlOK target then .viaLink target else .bad := by
  unfold nextLink
  have e : strBytes ">;rel=\"next\"" = 62 :: strBytes ";rel=\"next\"" := by decide
  simp only [h, e]
  simp only [List.cons_append, List.nil_append, reduceCtorEq, if_false]
  rw [cutByte_append _ h62]

/-- the answer of a list handler -/
def listResp (o : SrvOpts) (q : SrvReq) (page : List Bytes) (truncated : Bool) (msg : Bytes) : Resp :=
  mkResp 200 (listHeaders o q page truncated msg) msg

theorem listResp_status (o : SrvOpts) (q : SrvReq) (page : List Bytes) (t : Bool) (msg : Bytes) :
    (listResp o q page t msg).status = 200 ∧ (listResp o q page t msg).body = msg := ⟨rfl, rfl⟩

theorem hget_link_listHeaders (o : SrvOpts) (q : SrvReq) (page : List Bytes) (t : Bool) (msg : Bytes) :
    hget (listHeaders o q page t msg) hLink =
      match t && !o.omitLink, page.getLast? with
      | true, some l => makeNextLink q l
      | _, _ => [] := by
  unfold listHeaders
  cases (t && !o.omitLink) <;> cases page.getLast? <;> simp [hget_cons_ne]

theorem makeNextLink_eq (q : SrvReq) (l : Bytes) :
    makeNextLink q l = [60] ++ (q.path ++ [63] ++ encodeQuery (querySet q.query qLast l)) ++ strBytes ">;rel=\"next\"" := by
  unfold makeNextLink
  simp

theorem linkTarget_no62 (q : SrvReq) (l : Bytes) (hp : (62 : UInt8) ∉ q.path) :
    (62 : UInt8) ∉ q.path ++ [63] ++ encodeQuery (querySet q.query qLast l) := by
  simp only [List.mem_append, List.mem_singleton, not_or]
  exact ⟨⟨hp, by decide⟩, encodeQuery_alphabet _ (by decide) (by decide) (by decide)⟩

/-- What the client's pager makes of one answer of a list handler. -/
theorem clientListPage_listResp (dec : Bytes → Option (List Bytes)) (urlOK : Bytes → Bool) (o : SrvOpts) (q : SrvReq)
    (page : List Bytes) (t : Bool) (msg : Bytes) (n : Int) (hdec : dec msg = some page) (hp : (62 : UInt8) ∉ q.path) :
    clientListPage dec urlOK n (listResp o q page t msg) =
      .ok (page,
        if (page.length : Int) < n then none
        else match page.getLast? with
          | none => none
          | some l =>
            if t && !o.omitLink then
              (if urlOK (q.path ++ [63] ++ encodeQuery (querySet q.query qLast l))
               then some (.viaLink (q.path ++ [63] ++ encodeQuery (querySet q.query qLast l))) else some .bad)
            else some (.viaLast l)) := by
  unfold clientListPage
  have hg : gate [] (listResp o q page t msg).status = none := by
    show gate [] 200 = none
    decide
  have hb : (listResp o q page t msg).body = msg := rfl
  simp only [hg, hb, hdec]
  split
  · rfl
  · cases hl : page.getLast? with
    | none => rfl
    | some l =>
      simp only
      cases htl : (t && !o.omitLink) with
      | false =>
        rw [nextLink_none]
        · simp
        · show hget (listHeaders o q page t msg) hLink = []
          rw [hget_link_listHeaders, htl]
      | true =>
        rw [nextLink_link urlOK _ l _ (linkTarget_no62 q l hp)]
        · simp only [if_true]
          split <;> rfl
        · show hget (listHeaders o q page t msg) hLink = _
          rw [hget_link_listHeaders, htl, hl]
          exact makeNextLink_eq q l



/-- the start point as the abstract pager sees it: `last=""` is "from the beginning" -/
def startOpt (b : Bytes) : Option Bytes := if b = [] then none else some b

theorem backendAfter_eq (L : List Bytes) (b : Bytes) : backendAfter L b = after L (startOpt b) := by
  unfold backendAfter startOpt
  split <;> rfl

theorem nextListResults_page (o : SrvOpts) {n : Int} (hn : 0 < n)
    (hpage : ¬ (o.maxListPageSize > 0 ∧ n > o.maxListPageSize)) (items : List Bytes) :
    nextListResults o n items = .ok (items.take n.toNat, decide (n.toNat < items.length)) := by
  unfold nextListResults
  rw [if_neg hpage, if_pos hn]

theorem rtList_generic (H : Bytes → Bytes) (o : SrvOpts) (dec : Bytes → Option (List Bytes)) {n : Int}
    (hn : 0 < n) (L : List Bytes) (hL : L.Pairwise BLt) (hne : [] ∉ L)
    (k : Kind) (R path : Bytes) (enc : List Bytes → Bytes)
    (hdec : ∀ l, dec (enc l) = some l)
    (hpage : ¬ (o.maxListPageSize > 0 ∧ n > o.maxListPageSize))
    (h62 : (62 : UInt8) ∉ path) (h63 : (63 : UInt8) ∉ path)
    (hsrv : ∀ q : SrvReq, q.r.kind = k → q.r.repo = R → ∀ items,
      serverResp H o q (.items items) =
        match nextListResults o q.r.listN items with
        | .error e => .err e
        | .ok (page, t) => .resp (listResp o q page t (enc page)))
    (hcls : ∀ qs last, QueryOK n qs →
      classifyTarget mGET (path ++ [63] ++ encodeQuery (querySet qs qLast last)) =
        .ok { kind := k, repo := R, listN := n, listLast := last }) :
    ∀ (fuel : Nat) (q : SrvReq), q.r.kind = k → q.r.repo = R → q.r.listN = n → q.path = path → QueryOK n q.query →
      (after L (startOpt q.r.listLast)).length < fuel →
      rtList H o dec n L fuel q = (after L (startOpt q.r.listLast), none) := by
  intro fuel
  induction fuel with
  | zero => intro q _ _ _ _ _ hf; omega
  | succ fuel ih =>
    intro q hk hR hN hp hq hf
    generalize hA : after L (startOpt q.r.listLast) = A at hf
    have hn1 : 1 ≤ n.toNat := by omega
    have hs : serverResp H o q (.items (backendAfter L q.r.listLast)) =
        .resp (listResp o q (A.take n.toNat) (decide (n.toNat < A.length)) (enc (A.take n.toNat))) := by
      rw [hsrv q hk hR, hN, nextListResults_page o hn hpage, backendAfter_eq, hA]
    have h62' : (62 : UInt8) ∉ q.path := hp ▸ h62
    unfold rtList
    simp only [hs, SOut.wire]
    rw [clientListPage_listResp dec (fun _ => true) o q _ _ _ n (hdec _) h62']
    simp only
    by_cases hshort : ((A.take n.toNat).length : Int) < n
    · rw [if_pos hshort]
      simp only
      have : A.length < n.toNat := by
        rw [List.length_take] at hshort; omega
      rw [List.take_of_length_le (by omega)]
    · rw [if_neg hshort]
      have hge : n.toNat ≤ A.length := by
        rw [List.length_take] at hshort; omega
      have hne' : A.take n.toNat ≠ [] := by
        intro h
        have := congrArg List.length h
        rw [List.length_take, List.length_nil] at this
        omega
      obtain ⟨l, hl⟩ : ∃ l, (A.take n.toNat).getLast? = some l := by
        cases h : (A.take n.toNat).getLast? with
        | none => exact absurd (List.getLast?_eq_none_iff.mp h) hne'
        | some l => exact ⟨l, rfl⟩
      have hlA : l ∈ A := List.mem_of_mem_take (List.mem_of_getLast? hl)
      have hlL : l ∈ L := (hA ▸ after_sublist L _).subset hlA
      have hlne : l ≠ [] := fun e => hne (e ▸ hlL)
      have hnext : after L (some l) = A.drop n.toNat := by
        rw [← hA] at hl ⊢
        exact after_last_of_page hL _ hl
      have hlen : (after L (some l)).length < fuel := by
        rw [hnext, List.length_drop]; omega
      have hso : startOpt l = some l := by unfold startOpt; rw [if_neg hlne]
      simp only [hl]
      by_cases htl : (decide (n.toNat < A.length) && !o.omitLink) = true
      · -- the server sent a Link: the client follows it, the router reads it back
        rw [if_pos htl]
        simp only [if_true]
        have hcl := hcls q.query l hq
        rw [← hp] at hcl
        have hsp : splitTarget (q.path ++ [63] ++ encodeQuery (querySet q.query qLast l)) =
            (q.path, encodeQuery (querySet q.query qLast l)) := by
          rw [List.append_assoc, List.singleton_append]
          exact splitTarget_query _ (hp ▸ h63)
        simp only [hcl, hsp, parseQuery_link hq l]
        have ih' := ih { q with r := { kind := k, repo := R, listN := n, listLast := l }, path := q.path,
                                query := [(qLast, l), (qN, itoa n)] } rfl rfl rfl hp (queryOK_sorted n l)
          (by simp only [hso]; exact hlen)
        rw [ih']
        simp only [hso, hnext, List.take_append_drop]
      · -- no Link: the initial request again, with `last` set
        rw [if_neg htl]
        simp only
        have ih' := ih { q with r := { q.r with listLast := l }, query := listQuery { q.r with listLast := l } }
          hk hR hN hp (by
            rw [← hN]
            exact queryOK_listQuery { q.r with listLast := l } (by show 0 ≤ q.r.listN; omega))
          (by simp only [hso]; exact hlen)
        rw [ih']
        simp only [hso, hnext, List.take_append_drop]



/-! ### Never a panic -/

/-- the shape of a successful `descriptorFromResponse` -/
theorem descriptorFromResponse_ok {r : Resp} {known : Bytes} {rs rd : Bool} {d : Desc}
    (h : descriptorFromResponse r known rs rd = .ok d) :
    ¬ (hget r.hdr hDigest ≠ [] ∧ isDigest (hget r.hdr hDigest) = false) ∧
    d.digest = (if known ≠ [] then known else hget r.hdr hDigest) ∧      -- F31: the digest asked for wins
    ¬ (rd = true ∧ d.digest = []) := by
  unfold descriptorFromResponse at h
  simp only at h
  generalize (if rs = true then
      if r.status = 206 then
        if hget r.hdr hContentRange = [] then Except.error DescErr.noContentRange
        else
          match cutLastSlash (hget r.hdr hContentRange) with
          | none => Except.error DescErr.malformedContentRange
          | some (_, after) =>
            match atoi after with
            | none => Except.error DescErr.malformedContentRange
            | some n => Except.ok n
      else if r.contentLength < 0 then Except.error DescErr.unknownLength else Except.ok r.contentLength
    else Except.ok 0 : Except DescErr Int) = sz at h
  cases sz with
  | error e => cases h
  | ok size =>
    simp only at h
    by_cases h1 : hget r.hdr hDigest ≠ [] ∧ (!isDigest (hget r.hdr hDigest)) = true
    · rw [if_pos h1] at h; cases h
    · rw [if_neg h1] at h
      by_cases hkv : known ≠ [] ∧ (!isDigest known) = true                  -- F32: an ill-formed digest argument
      · rw [if_pos hkv] at h; cases h
      · rw [if_neg hkv] at h
        by_cases h2 : rd = true ∧ (if known ≠ [] then known else hget r.hdr hDigest) = []
        · rw [if_pos h2] at h; cases h
        · rw [if_neg h2] at h
          injection h with h
          subst h
          refine ⟨?_, rfl, h2⟩
          simpa using h1

/-- F32: a descriptor is formed only when the digest the caller named (if any) is well formed. -/
theorem descriptorFromResponse_known_valid {r : Resp} {known : Bytes} {rs rd : Bool} {d : Desc}
    (h : descriptorFromResponse r known rs rd = .ok d) (hk : known ≠ []) : isDigest known = true := by
  unfold descriptorFromResponse at h
  simp only at h
  split at h
  · cases h
  · split at h
    · cases h
    · split at h
      · cases h
      · rename_i hkv
        cases hd : isDigest known with
        | true => rfl
        | false => exact absurd ⟨hk, by simp [hd]⟩ hkv

theorem descriptorFromResponse_digest {r : Resp} {known : Bytes} {rs rd : Bool} {d : Desc}
    (h : descriptorFromResponse r known rs rd = .ok d) :
    d.digest = known ∨ isDigest d.digest = true := by
  -- F31: the descriptor's digest is the one asked for, or (nothing asked for) the validated header
  obtain ⟨h1, h2, _⟩ := descriptorFromResponse_ok h
  by_cases hk : known = []
  · by_cases he : hget r.hdr hDigest = []
    · left; rw [h2, hk, he]; simp
    · right
      rw [h2, if_neg (by simpa using hk)]
      cases hd : isDigest (hget r.hdr hDigest) with
      | true => rfl
      | false => exact absurd ⟨he, hd⟩ h1
  · left; rw [h2, if_pos hk]

/-- F31: a call that names a digest gets that digest in the descriptor, whatever the header says. -/
theorem descriptorFromResponse_known {r : Resp} {known : Bytes} {rs rd : Bool} {d : Desc}
    (h : descriptorFromResponse r known rs rd = .ok d) (hk : known ≠ []) : d.digest = known := by
  rw [(descriptorFromResponse_ok h).2.1, if_pos hk]

theorem descriptorFromResponse_requireDigest {r : Resp} {known : Bytes} {rs : Bool} {d : Desc}
    (h : descriptorFromResponse r known rs true = .ok d) : d.digest ≠ [] := by
  obtain ⟨_, _, h3⟩ := descriptorFromResponse_ok h
  intro e
  exact h3 ⟨rfl, e⟩

theorem newBlobReader_ne_panic {d : Desc} (v : Bool) (b : Bytes) (h : digestHashable d.digest = true) :
    newBlobReader d v b ≠ .panic := by
  unfold newBlobReader
  rw [if_pos h]
  intro e; cases e

theorem clientRead_ne_panic (H : Bytes → Bytes) (hH : ∀ x, digestHashable (H x) = true) (kind : Kind) (known : Bytes)
    (r1 : Resp) (r2 : Option Resp) :                                       -- F32: no hypothesis on `known` any more
    clientRead H kind known r1 r2 ≠ .panic := by
  unfold clientRead
  split
  · intro e; cases e
  · split
    · intro e; cases e
    · rename_i d hd
      split
      · rename_i hne
        apply newBlobReader_ne_panic
        rcases descriptorFromResponse_digest hd with h1 | h1
        · -- F32: the digest the caller named was checked before it was used
          have hkne : known ≠ [] := fun e => hne (h1.trans e)
          rw [h1]; exact isDigest_hashable (descriptorFromResponse_known_valid hd hkne)
        · exact isDigest_hashable h1
      · split
        · intro e; cases e
        · split
          · dsimp only
            split
            · intro e; cases e
            · exact newBlobReader_ne_panic _ _ (hH _)
          · split
            · intro e; cases e
            · split
              · intro e; cases e
              · split
                · intro e; cases e
                · rename_i d2 hd2
                  apply newBlobReader_ne_panic
                  rcases descriptorFromResponse_digest hd2 with h1 | h1
                  · exact absurd h1 (descriptorFromResponse_requireDigest hd2)
                  · exact isDigest_hashable h1

theorem clientGetBlobRange_ne_panic (known : Bytes) (hk : isDigest known = true) (r : Resp) :
    clientGetBlobRange known r ≠ .panic := by
  unfold clientGetBlobRange
  split
  · intro e; cases e
  · split
    · intro e; cases e
    · rename_i d hd
      apply newBlobReader_ne_panic
      rcases descriptorFromResponse_digest hd with h1 | h1
      · rw [h1]; exact isDigest_hashable hk
      · exact isDigest_hashable h1

/-- F32: with a digest named (well formed or not) the range reader never reaches `Algorithm().Hash()` on an
ill-formed digest: `descriptorFromResponse` refuses first. -/
theorem clientGetBlobRange_ne_panic_named (known : Bytes) (hk : known ≠ []) (r : Resp) :
    clientGetBlobRange known r ≠ .panic := by
  unfold clientGetBlobRange
  split
  · intro e; cases e
  · split
    · intro e; cases e
    · rename_i d hd
      apply newBlobReader_ne_panic
      rcases descriptorFromResponse_digest hd with h1 | h1
      · rw [h1]; exact isDigest_hashable (descriptorFromResponse_known_valid hd hk)
      · exact isDigest_hashable h1

/-- the digests a call carries were validated when its request was constructed -/
def Call.digestsValid : Call → Prop
  | .getBlob dg | .getBlobRange dg _ _ | .getManifest dg => isDigest dg = true
  | _ => True

theorem clientDecode_ne_panic (H : Bytes → Bytes) (hH : ∀ x, digestHashable (H x) = true)
    (resolve : Bytes → Option Bytes) (c : Call) (hc : c.digestsValid) (rs : List Resp) :
    clientDecode H resolve c rs ≠ .panic := by
  unfold clientDecode
  cases rs with
  | nil => cases c <;> simp only <;> (try split) <;> (intro e; cases e)
  | cons r1 rest =>
    cases c with
    | getBlob dg => exact clientRead_ne_panic H hH _ _ _ _
    | getBlobRange dg o0 o1 =>
      simp only
      split
      · exact clientRead_ne_panic H hH _ _ _ _
      · exact clientGetBlobRange_ne_panic _ hc _
    | getManifest dg => exact clientRead_ne_panic H hH _ _ _ _
    | getTag => exact clientRead_ne_panic H hH _ _ _ _
    | resolveBlob dg => simp only [clientResolve]; (repeat' split) <;> (intro e; cases e)
    | resolveManifest dg => simp only [clientResolve]; (repeat' split) <;> (intro e; cases e)
    | resolveTag => simp only [clientResolve]; (repeat' split) <;> (intro e; cases e)
    | pushManifest own => simp only [clientPushManifest]; (repeat' split) <;> (intro e; cases e)
    | mountBlob dg => simp only [clientMount]; (repeat' split) <;> (intro e; cases e)
    | pushBlob own => simp only [clientPushBlob]; (repeat' split) <;> (intro e; cases e)
    | pushBlobChunked cs => simp only [clientPushBlobChunked]; (repeat' split) <;> (intro e; cases e)
    | resumeAsk cs => simp only [clientResumeAsk]; (repeat' split) <;> (intro e; cases e)
    | flushPatch => simp only; (repeat' split) <;> (intro e; cases e)
    | commit size dg => simp only [clientCommit]; (repeat' split) <;> (intro e; cases e)
    | delete => simp only [clientDelete]; (repeat' split) <;> (intro e; cases e)



/-- F32: the digest arguments of a call are present (an empty digest never makes a request: `Construct` fails) -/
def Call.digestsNamed : Call → Prop
  | .getBlob dg | .getBlobRange dg _ _ | .getManifest dg => dg ≠ []
  | _ => True

/-- F32: no hypothesis on the *form* of the digest arguments is needed any more. -/
theorem clientDecode_ne_panic_named (H : Bytes → Bytes) (hH : ∀ x, digestHashable (H x) = true)
    (resolve : Bytes → Option Bytes) (c : Call) (hc : c.digestsNamed) (rs : List Resp) :
    clientDecode H resolve c rs ≠ .panic := by
  unfold clientDecode
  cases rs with
  | nil => cases c <;> simp only <;> (try split) <;> (intro e; cases e)
  | cons r1 rest =>
    cases c with
    | getBlob dg => exact clientRead_ne_panic H hH _ _ _ _
    | getBlobRange dg o0 o1 =>
      simp only
      split
      · exact clientRead_ne_panic H hH _ _ _ _
      · exact clientGetBlobRange_ne_panic_named _ hc _
    | getManifest dg => exact clientRead_ne_panic H hH _ _ _ _
    | getTag => exact clientRead_ne_panic H hH _ _ _ _
    | resolveBlob dg => simp only [clientResolve]; (repeat' split) <;> (intro e; cases e)
    | resolveManifest dg => simp only [clientResolve]; (repeat' split) <;> (intro e; cases e)
    | resolveTag => simp only [clientResolve]; (repeat' split) <;> (intro e; cases e)
    | pushManifest own => simp only [clientPushManifest]; (repeat' split) <;> (intro e; cases e)
    | mountBlob dg => simp only [clientMount]; (repeat' split) <;> (intro e; cases e)
    | pushBlob own => simp only [clientPushBlob]; (repeat' split) <;> (intro e; cases e)
    | pushBlobChunked cs => simp only [clientPushBlobChunked]; (repeat' split) <;> (intro e; cases e)
    | resumeAsk cs => simp only [clientResumeAsk]; (repeat' split) <;> (intro e; cases e)
    | flushPatch => simp only; (repeat' split) <;> (intro e; cases e)
    | commit size dg => simp only [clientCommit]; (repeat' split) <;> (intro e; cases e)
    | delete => simp only [clientDelete]; (repeat' split) <;> (intro e; cases e)

/-! ### F31: a call by digest reports the digest that was asked for -/

/-- the digest a call names (reads, resolves and mounts BY DIGEST); `none` for calls through a tag and for
calls whose result is the client's own account -/
def Call.requested : Call → Option Bytes
  | .getBlob dg | .getBlobRange dg _ _ | .getManifest dg | .resolveBlob dg | .resolveManifest dg | .mountBlob dg => some dg
  | _ => none

/-- the descriptor of a successful result -/
def CRes.desc? : CRes → Option Desc
  | .desc d => some d
  | .reader d _ _ => some d
  | _ => none

theorem newBlobReader_desc? {d d' : Desc} {v : Bool} {b : Bytes} (h : (newBlobReader d v b).desc? = some d') : d' = d := by
  unfold newBlobReader at h
  split at h
  · injection h with h; exact h.symm
  · cases h

theorem clientRead_requested (H : Bytes → Bytes) (kind : Kind) {known : Bytes} (hk : known ≠ []) (r1 : Resp)
    (r2 : Option Resp) {d : Desc} (h : (clientRead H kind known r1 r2).desc? = some d) : d.digest = known := by
  unfold clientRead at h
  split at h
  · cases h
  · split at h
    · cases h
    · rename_i d0 hd0
      have hdg := descriptorFromResponse_known hd0 hk
      rw [if_pos (by rw [hdg]; exact hk)] at h
      rw [newBlobReader_desc? h]; exact hdg

theorem clientGetBlobRange_requested {known : Bytes} (hk : known ≠ []) (r : Resp) {d : Desc}
    (h : (clientGetBlobRange known r).desc? = some d) : d.digest = known := by
  unfold clientGetBlobRange at h
  split at h
  · cases h
  · split at h
    · cases h
    · rename_i d0 hd0
      rw [newBlobReader_desc? h]; exact descriptorFromResponse_known hd0 hk

theorem clientResolve_requested {known : Bytes} (hk : known ≠ []) (r : Resp) {d : Desc}
    (h : (clientResolve known r).desc? = some d) : d.digest = known := by
  unfold clientResolve at h
  split at h
  · cases h
  · split at h
    · cases h
    · rename_i d0 hd0
      injection h with h
      rw [← h]; exact descriptorFromResponse_known hd0 hk

theorem clientMount_requested {known : Bytes} (hk : known ≠ []) (r : Resp) {d : Desc}
    (h : (clientMount known r).desc? = some d) : d.digest = known := by
  unfold clientMount at h
  split at h
  · cases h
  · split at h
    · cases h
    · split at h
      · cases h
      · rename_i d0 hd0
        injection h with h
        rw [← h]; exact descriptorFromResponse_known hd0 hk

theorem clientDecode_requested (H : Bytes → Bytes) (resolve : Bytes → Option Bytes) (c : Call) {dg : Bytes}
    (hc : c.requested = some dg) (hne : dg ≠ []) (rs : List Resp) {d : Desc}
    (h : (clientDecode H resolve c rs).desc? = some d) : d.digest = dg := by
  unfold clientDecode at h
  cases rs with
  | nil => cases c <;> simp only at h <;> (try split at h) <;> cases h
  | cons r1 rest =>
    cases c <;> simp only [Call.requested] at hc <;> (try cases hc) <;> simp only at h
    · exact clientRead_requested H _ hne _ _ h
    · split at h
      · exact clientRead_requested H _ hne _ _ h
      · exact clientGetBlobRange_requested hne _ h
    · exact clientRead_requested H _ hne _ _ h
    · exact clientResolve_requested hne _ h
    · exact clientResolve_requested hne _ h
    · exact clientMount_requested hne _ h

/-! ### Where the server can panic -/

theorem ite_ne {α : Type} {c : Prop} [Decidable c] {a b p : α} (ha : a ≠ p) (hb : b ≠ p) :
    (if c then a else b) ≠ p := by
  split <;> assumption

theorem handleBlobGet_ne_panic (q : SrvReq) (b : BRes) : handleBlobGet q b ≠ .panic := by
  unfold handleBlobGet
  split
  · intro e; cases e
  · split <;> (intro e; cases e)
  · split
    · dsimp only
      exact ite_ne (by intro e; cases e) (ite_ne (by intro e; cases e) (by intro e; cases e))
    · intro e; cases e
theorem handleBlobHead_ne_panic (b : BRes) : handleBlobHead b ≠ .panic := by
  unfold handleBlobHead; (repeat' split) <;> (intro e; cases e)
theorem handleDelete_ne_panic (b : BRes) : handleDelete b ≠ .panic := by
  unfold handleDelete; (repeat' split) <;> (intro e; cases e)
theorem handleBlobMount_ne_panic (q : SrvReq) (b : BRes) : handleBlobMount q b ≠ .panic := by
  unfold handleBlobMount; (repeat' split) <;> (intro e; cases e)
theorem handleBlobCompleteUpload_ne_panic (q : SrvReq) (b : BRes) : handleBlobCompleteUpload q b ≠ .panic := by
  unfold handleBlobCompleteUpload; (repeat' split) <;> (intro e; cases e)
theorem handleManifestGet_ne_panic (o : SrvOpts) (b : BRes) : handleManifestGet o b ≠ .panic := by
  unfold handleManifestGet; (repeat' split) <;> (intro e; cases e)
theorem handleManifestHead_ne_panic (o : SrvOpts) (q : SrvReq) (b : BRes) : handleManifestHead o q b ≠ .panic := by
  unfold handleManifestHead; (repeat' split) <;> (intro e; cases e)
theorem handleManifestPut_ne_panic (H : Bytes → Bytes) (q : SrvReq) (b : BRes) : handleManifestPut H q b ≠ .panic := by
  unfold handleManifestPut
  dsimp only
  (repeat' split) <;> (intro e; cases e)
theorem handleTagsList_ne_panic (o : SrvOpts) (q : SrvReq) (b : BRes) : handleTagsList o q b ≠ .panic := by
  unfold handleTagsList
  dsimp only
  (repeat' split) <;> (intro e; cases e)
theorem handleCatalogList_ne_panic (o : SrvOpts) (q : SrvReq) (b : BRes) : handleCatalogList o q b ≠ .panic := by
  unfold handleCatalogList
  dsimp only
  (repeat' split) <;> (intro e; cases e)
theorem handleReferrersList_ne_panic (o : SrvOpts) (b : BRes) : handleReferrersList o b ≠ .panic := by
  unfold handleReferrersList
  dsimp only
  (repeat' split) <;> (intro e; cases e)

theorem handleBlobStartUpload_panic {q : SrvReq} {b : BRes} (h : handleBlobStartUpload q b = .panic) :
    ∃ id size chunk, b = .writer id size chunk ∧ locationForUploadID q.r.repo id = none := by
  unfold handleBlobStartUpload at h
  split at h
  · rename_i id size chunk
    split at h
    · rename_i hl; exact ⟨id, size, chunk, rfl, hl⟩
    · cases h
  · cases h

theorem handleBlobUploadInfo_panic {q : SrvReq} {b : BRes} (h : handleBlobUploadInfo q b = .panic) :
    ∃ id size chunk, b = .writer id size chunk ∧ locationForUploadID q.r.repo id = none := by
  unfold handleBlobUploadInfo at h
  split at h
  · rename_i id size chunk
    split at h
    · rename_i hl; exact ⟨id, size, chunk, rfl, hl⟩
    · cases h
  · cases h

theorem handleBlobUploadChunk_panic {q : SrvReq} {b : BRes} (h : handleBlobUploadChunk q b = .panic) :
    ∃ id size chunk, b = .writer id size chunk ∧ locationForUploadID q.r.repo id = none := by
  unfold handleBlobUploadChunk at h
  split at h
  · rename_i id size chunk
    split at h
    · rename_i hl; exact ⟨id, size, chunk, rfl, hl⟩
    · cases h
  · cases h

theorem handleBlobUploadBlob_panic {o : SrvOpts} {q : SrvReq} {b : BRes} (h : handleBlobUploadBlob o q b = .panic) :
    ∃ id size chunk, b = .writer id size chunk ∧ locationForUploadID q.r.repo id = none := by
  unfold handleBlobUploadBlob at h
  split at h
  · exact handleBlobStartUpload_panic h
  · split at h <;> cases h

theorem serverResp_panic {H : Bytes → Bytes} {o : SrvOpts} {q : SrvReq} {b : BRes} (h : serverResp H o q b = .panic) :
    ∃ id size chunk, b = .writer id size chunk ∧ locationForUploadID q.r.repo id = none := by
  unfold serverResp at h
  split at h
  · cases h
  · exact absurd h (handleBlobGet_ne_panic _ _)
  · exact absurd h (handleBlobHead_ne_panic _)
  · exact absurd h (handleDelete_ne_panic _)
  · exact handleBlobStartUpload_panic h
  · exact handleBlobUploadBlob_panic h
  · exact absurd h (handleBlobMount_ne_panic _ _)
  · exact handleBlobUploadInfo_panic h
  · exact handleBlobUploadChunk_panic h
  · exact absurd h (handleBlobCompleteUpload_ne_panic _ _)
  · exact absurd h (handleManifestGet_ne_panic _ _)
  · exact absurd h (handleManifestHead_ne_panic _ _ _)
  · exact absurd h (handleManifestPut_ne_panic _ _ _)
  · exact absurd h (handleDelete_ne_panic _)
  · exact absurd h (handleTagsList_ne_panic _ _ _)
  · exact absurd h (handleReferrersList_ne_panic _ _)
  · exact absurd h (handleCatalogList_ne_panic _ _ _)

theorem clientFlush_noLocation (resolve : Bytes → Option Bytes) (commit : Bool) (r : Resp)
    (h : hget r.hdr hLocation = []) : ∃ e, clientFlush resolve commit r = .error e := by
  unfold clientFlush locationFromResponse
  simp only [h, if_true]
  split <;> exact ⟨_, rfl⟩

/-- facts about the answer of a list handler, as the client reads it -/
theorem listResp_facts (o : SrvOpts) (q : SrvReq) (page : List Bytes) (t : Bool) (msg : Bytes) :
    (listResp o q page t msg).status = 200 ∧ (listResp o q page t msg).body = msg ∧
    hget (listResp o q page t msg).hdr hLink =
      match t && !o.omitLink, page.getLast? with
      | true, some l => makeNextLink q l
      | _, _ => [] :=
  ⟨rfl, rfl, hget_link_listHeaders o q page t msg⟩

end OciModel.RespCodec
