/-
Lemmas about the composite upload ID (`UnifyID.lean`): Go's string encoder read back by the JSON
reader, the array of strings, base64url on top.
-/
import OciModel.UnifyID
import OciModel.JsonLemmas
import OciModel.B64UrlLemmas
set_option linter.unusedSimpArgs false
namespace OciModel.UnifyID
open OciModel OciModel.Json

/-! ## Counters -/

theorem goEsc_copy (pre t : Bytes) : goEsc pre.length 0 (pre ++ t) = pre ++ goEsc 0 0 t := by
  induction pre with
  | nil => simp
  | cons c pre ih => simp [goEsc, ih]

theorem goEsc_drop (pre t : Bytes) : goEsc 0 pre.length (pre ++ t) = goEsc 0 0 t := by
  induction pre with
  | nil => simp
  | cons c pre ih => simp [goEsc, ih]

theorem sanGo_copy (pre t : Bytes) : sanGo pre.length (pre ++ t) = pre ++ sanGo 0 t := by
  induction pre with
  | nil => simp
  | cons c pre ih => simp [sanGo, ih]

theorem unqGo_skip (pre t : Bytes) : unqGo pre.length (pre ++ t) = unqGo 0 t := by
  rw [unqGo_drop]; simp

/-! ## One escaped unit read back -/

theorem escAt_u00' (c : UInt8) (hc : c.toNat < 0x80) (r : Bytes) :
    escAt (0x75 :: 0x30 :: 0x30 :: hexDigit (c.toNat / 16) :: hexDigit (c.toNat % 16) :: r) = ([c], 5) := by
  have h1 : hexVal (hexDigit (c.toNat / 16)) = some (c.toNat / 16) := hexVal_hexDigit _ (by omega)
  have h2 : hexVal (hexDigit (c.toNat % 16)) = some (c.toNat % 16) := hexVal_hexDigit _ (by omega)
  have h4 : hex4 (0x30 :: 0x30 :: hexDigit (c.toNat / 16) :: hexDigit (c.toNat % 16) :: r) = some c.toNat := by
    simp only [hex4, hexVal_zero, h1, h2]
    congr 1; omega
  unfold escAt
  simp only [h4]
  have : (0x75 : UInt8).toNat = 0x75 := by decide
  simp [this]
  have hne : ¬ (0xD800 ≤ c.toNat ∧ c.toNat < 0xE000) := by omega
  simp [hne, encodeRune]
  intro h; omega

theorem hex4_u00' (c : UInt8) (hc : c.toNat < 0x80) (r : Bytes) :
    hex4 (0x30 :: 0x30 :: hexDigit (c.toNat / 16) :: hexDigit (c.toNat % 16) :: r) = some c.toNat := by
  have h1 : hexVal (hexDigit (c.toNat / 16)) = some (c.toNat / 16) := hexVal_hexDigit _ (by omega)
  have h2 : hexVal (hexDigit (c.toNat % 16)) = some (c.toNat % 16) := hexVal_hexDigit _ (by omega)
  simp only [hex4, hexVal_zero, h1, h2]
  congr 1; omega

/-- The shapes `asciiEsc` can take. -/
theorem asciiEsc_cases (c : UInt8) (h80 : c.toNat < 0x80) :
    (∃ e, asciiEsc c = [0x5C, e] ∧ e.toNat ≠ 0x75 ∧ isSimpleEsc e = true ∧ simpleEsc e = c) ∨
    asciiEsc c = [0x5C, 0x75, 0x30, 0x30, hexDigit (c.toNat / 16), hexDigit (c.toNat % 16)] ∨
    (asciiEsc c = [c] ∧ c.toNat ≠ 0x22 ∧ c.toNat ≠ 0x5C ∧ 0x20 ≤ c.toNat) := by
  have key : ∀ n, n < 0x80 →
      (asciiEsc (UInt8.ofNat n) = [0x5C, ((asciiEsc (UInt8.ofNat n)).drop 1).headD 0] ∧
        (((asciiEsc (UInt8.ofNat n)).drop 1).headD 0).toNat ≠ 0x75 ∧
        isSimpleEsc (((asciiEsc (UInt8.ofNat n)).drop 1).headD 0) = true ∧
        simpleEsc (((asciiEsc (UInt8.ofNat n)).drop 1).headD 0) = UInt8.ofNat n) ∨
      asciiEsc (UInt8.ofNat n) = [0x5C, 0x75, 0x30, 0x30, hexDigit ((UInt8.ofNat n).toNat / 16), hexDigit ((UInt8.ofNat n).toNat % 16)] ∨
      (asciiEsc (UInt8.ofNat n) = [UInt8.ofNat n] ∧ (UInt8.ofNat n).toNat ≠ 0x22 ∧ (UInt8.ofNat n).toNat ≠ 0x5C ∧ 0x20 ≤ (UInt8.ofNat n).toNat) := by
    decide
  have := key c.toNat h80
  simp only [UInt8.ofNat_toNat] at this
  rcases this with h | h | h
  · exact Or.inl ⟨_, h⟩
  · exact Or.inr (Or.inl h)
  · exact Or.inr (Or.inr h)

theorem unq_asciiEsc (c : UInt8) (h80 : c.toNat < 0x80) (X : Bytes) :
    unqGo 0 (asciiEsc c ++ X) = c :: unqGo 0 X := by
  rcases asciiEsc_cases c h80 with ⟨e, he, hu, hs, hv⟩ | he | ⟨he, hq, hb, _⟩
  · rw [he]
    simp only [List.cons_append, List.nil_append]
    rw [unqGo]
    simp only [show (0x5C : UInt8).toNat = 0x5C from by decide, if_true]
    rw [escAt_simple _ _ hu hs]
    simp [unqGo, hv]
  · rw [he]
    simp only [List.cons_append, List.nil_append]
    rw [unqGo]
    simp only [show (0x5C : UInt8).toNat = 0x5C from by decide, if_true]
    rw [escAt_u00' c h80]
    simp only [unqGo]
    rfl
  · rw [he]
    simp only [List.cons_append, List.nil_append]
    rw [unqGo]
    simp only [hb, if_false, seqLen_ascii h80, List.take_zero]
    rfl

theorem unq_escFFFD (X : Bytes) : unqGo 0 (escFFFD ++ X) = replacement ++ unqGo 0 X := by
  simp only [escFFFD, List.cons_append, List.nil_append]
  rw [unqGo]
  simp only [show (0x5C : UInt8).toNat = 0x5C from by decide, if_true]
  have h : escAt (0x75 :: 0x66 :: 0x66 :: 0x66 :: 0x64 :: X) = (replacement, 5) := by
    have h4 : hex4 (0x66 :: 0x66 :: 0x66 :: 0x64 :: X) = some 0xFFFD := by
      simp [hex4, hexVal]
    unfold escAt
    simp only [h4]
    simp [encodeRune, replacement]
  rw [h]
  simp [unqGo]

theorem unq_escSep (d b2 : UInt8) (h : (d = 0x38 ∧ b2 = 0xA8) ∨ (d = 0x39 ∧ b2 = 0xA9)) (X : Bytes) :
    unqGo 0 (escSep d ++ X) = 0xE2 :: 0x80 :: b2 :: unqGo 0 X := by
  simp only [escSep, List.cons_append, List.nil_append]
  rw [unqGo]
  simp only [show (0x5C : UInt8).toNat = 0x5C from by decide, if_true]
  rcases h with ⟨rfl, rfl⟩ | ⟨rfl, rfl⟩
  · have h : escAt (0x75 :: 0x32 :: 0x30 :: 0x32 :: 0x38 :: X) = ([0xE2, 0x80, 0xA8], 5) := by
      have h4 : hex4 (0x32 :: 0x30 :: 0x32 :: 0x38 :: X) = some 0x2028 := by simp [hex4, hexVal]
      unfold escAt
      simp only [h4]
      simp [encodeRune]
    rw [h]; simp [unqGo]
  · have h : escAt (0x75 :: 0x32 :: 0x30 :: 0x32 :: 0x39 :: X) = ([0xE2, 0x80, 0xA9], 5) := by
      have h4 : hex4 (0x32 :: 0x30 :: 0x32 :: 0x39 :: X) = some 0x2029 := by simp [hex4, hexVal]
      unfold escAt
      simp only [h4]
      simp [encodeRune]
    rw [h]; simp [unqGo]

theorem sepDigit_spec {c : UInt8} {bs : Bytes} {d : UInt8} (h : sepDigit c bs = some d) :
    c = 0xE2 ∧ ∃ b2 t, bs = 0x80 :: b2 :: t ∧ ((d = 0x38 ∧ b2 = 0xA8) ∨ (d = 0x39 ∧ b2 = 0xA9)) := by
  unfold sepDigit at h
  split at h
  · rename_i hc
    have hc' : c = 0xE2 := UInt8.toNat_inj.mp (by simpa using hc)
    refine ⟨hc', ?_⟩
    split at h
    · rename_i b1 b2 t
      split at h
      · rename_i h1
        have h1' : b1 = 0x80 := UInt8.toNat_inj.mp (by simpa using h1)
        subst h1'
        refine ⟨b2, t, rfl, ?_⟩
        split at h
        · rename_i h2
          left; exact ⟨by simpa using h.symm, UInt8.toNat_inj.mp (by simpa using h2)⟩
        · split at h
          · rename_i h2
            right; exact ⟨by simpa using h.symm, UInt8.toNat_inj.mp (by simpa using h2)⟩
          · simp at h
      · simp at h
    · simp at h
  · simp at h

/-! ## The string encoder read back by the JSON reader -/

theorem seqLen_two_plus {c : UInt8} {bs : Bytes} (h80 : ¬ c.toNat < 0x80) :
    seqLen c bs = 0 ∨ ∃ k, seqLen c bs = k + 2 := by
  match hlen : seqLen c bs with
  | 0 => exact Or.inl rfl
  | 1 => exact absurd (seqLen_one hlen) h80
  | k + 2 => exact Or.inr ⟨k, rfl⟩

theorem unq_goEsc : ∀ (n : Nat) (s : Bytes), s.length = n → unqGo 0 (goEsc 0 0 s) = sanGo 0 s := by
  intro n
  induction n using Nat.strongRecOn with
  | ind n ih =>
    intro s hn
    cases s with
    | nil => simp [goEsc, unqGo, sanGo]
    | cons c bs =>
      by_cases h80 : c.toNat < 0x80
      · have e1 : goEsc 0 0 (c :: bs) = asciiEsc c ++ goEsc 0 0 bs := by simp [goEsc, h80]
        have e2 : sanGo 0 (c :: bs) = c :: sanGo 0 bs := by simp [sanGo, seqLen_ascii h80]
        rw [e1, e2, unq_asciiEsc c h80, ih bs.length (by simp at hn; omega) bs rfl]
      · rcases seqLen_two_plus (bs := bs) h80 with h0 | ⟨k, hk⟩
        · have e1 : goEsc 0 0 (c :: bs) = escFFFD ++ goEsc 0 0 bs := by simp [goEsc, h80, h0]
          have e2 : sanGo 0 (c :: bs) = replacement ++ sanGo 0 bs := by simp [sanGo, h0]
          rw [e1, e2, unq_escFFFD, ih bs.length (by simp at hn; omega) bs rfl]
        · obtain ⟨pre, t, hs, hlenp, hplain, hc80, hall⟩ := seqLen_spec c bs k hk
          subst hs
          have iht : unqGo 0 (goEsc 0 0 t) = sanGo 0 t :=
            ih t.length (by simp at hn; omega) t rfl
          have e2 : sanGo 0 (c :: (pre ++ t)) = c :: (pre ++ sanGo 0 t) := by
            simp only [sanGo, hk]
            rw [← hlenp, sanGo_copy]
          cases hsd : sepDigit c (pre ++ t) with
          | some d =>
            obtain ⟨hc, b2, t', hbs, hd⟩ := sepDigit_spec hsd
            subst hc
            -- the sequence is E2 80 b2: three bytes
            have hk1 : k = 1 := by
              have := hall t'
              have h3 : seqLen 0xE2 (pre ++ t) = 3 := by
                rw [hbs]
                rcases hd with ⟨_, rfl⟩ | ⟨_, rfl⟩ <;> simp [seqLen, isCont]
              omega
            subst hk1
            have hpre : pre = [0x80, b2] ∧ t = t' := by
              match pre, hlenp with
              | [x, y], _ =>
                simp at hbs
                obtain ⟨rfl, rfl, rfl⟩ := hbs
                exact ⟨rfl, rfl⟩
            obtain ⟨rfl, rfl⟩ := hpre
            have e1 : goEsc 0 0 (0xE2 :: ([0x80, b2] ++ t)) = escSep d ++ goEsc 0 0 t := by
              have := goEsc_drop [0x80, b2] t
              simp only [List.length_cons, List.length_nil] at this
              have h80' : ¬ (0xE2 : UInt8).toNat < 0x80 := by decide
              simp only [goEsc, h80', if_false, hk, hsd]
              rw [this]
            rw [e1, e2, unq_escSep d b2 hd, iht]
            simp
          | none =>
            have e1 : goEsc 0 0 (c :: (pre ++ t)) = c :: (pre ++ goEsc 0 0 t) := by
              simp only [goEsc, h80, if_false, hk, hsd]
              rw [← hlenp, goEsc_copy]
            rw [e1, e2]
            rw [unqGo]
            have hb : ¬ c.toNat = 0x5C := by omega
            simp only [hb, if_false, hall (goEsc 0 0 t)]
            rw [← hlenp, unqGo_skip, iht]
            simp

theorem unquote_goEscape (s : Bytes) : unquote (goEscape s) = sanitize s :=
  unq_goEsc s.length s rfl

/-! ## The scanner's view of an encoded string -/

/-- `u` is passed over by the string scanner as a whole, whatever follows. -/
def SpanUnit (u : Bytes) : Prop := ∀ X, spanGo 0 (u ++ X) = (spanGo 0 X).map (· + u.length)

theorem spanUnit_high (pre : Bytes) (h : ∀ x ∈ pre, 0x80 ≤ x.toNat) : SpanUnit pre := by
  intro X
  induction pre with
  | nil => simp
  | cons c pre ih =>
    have hc := h c (by simp)
    have ih' := ih (fun x hx => h x (by simp [hx]))
    simp only [List.cons_append]
    rw [spanGo]
    have h1 : ¬ c.toNat = 0x22 := by omega
    have h2 : ¬ c.toNat = 0x5C := by omega
    have h3 : ¬ c.toNat < 0x20 := by omega
    simp only [h1, h2, h3, if_false, ih', Option.map_map, List.length_cons]
    congr 1

theorem spanUnit_asciiEsc (c : UInt8) (h80 : c.toNat < 0x80) : SpanUnit (asciiEsc c) := by
  intro X
  rcases asciiEsc_cases c h80 with ⟨e, he, hu, hs, _⟩ | he | ⟨he, hq, hb, h20⟩
  · rw [he]
    simp only [List.cons_append, List.nil_append]
    rw [spanGo]
    have hel : escLen (e :: X) = some 1 := by simp [escLen, hu, hs]
    simp [hel, spanGo, Option.map_map]
    congr 1
  · rw [he]
    simp only [List.cons_append, List.nil_append]
    rw [spanGo]
    have hel : escLen (0x75 :: 0x30 :: 0x30 :: hexDigit (c.toNat / 16) :: hexDigit (c.toNat % 16) :: X) = some 5 := by
      simp [escLen, hex4_u00' c h80]
    simp [hel, spanGo, Option.map_map]
    congr 1
  · rw [he]
    simp only [List.cons_append, List.nil_append]
    rw [spanGo]
    have h3 : ¬ c.toNat < 0x20 := by omega
    simp only [hq, hb, h3, if_false, List.length_cons, List.length_nil]

theorem spanUnit_escFFFD : SpanUnit escFFFD := by
  intro X
  simp only [escFFFD, List.cons_append, List.nil_append]
  rw [spanGo]
  have hel : escLen (0x75 :: 0x66 :: 0x66 :: 0x66 :: 0x64 :: X) = some 5 := by simp [escLen, hex4, hexVal]
  simp [hel, spanGo, Option.map_map]
  congr 1

theorem spanUnit_escSep (d : UInt8) (h : d = 0x38 ∨ d = 0x39) : SpanUnit (escSep d) := by
  intro X
  simp only [escSep, List.cons_append, List.nil_append]
  rw [spanGo]
  have hel : escLen (0x75 :: 0x32 :: 0x30 :: 0x32 :: d :: X) = some 5 := by
    rcases h with rfl | rfl <;> simp [escLen, hex4, hexVal]
  simp [hel, spanGo, Option.map_map]
  congr 1

/-- One step of the encoder: a unit the scanner passes over, then the encoding of a shorter rest. -/
theorem goEsc_step (c : UInt8) (bs : Bytes) :
    ∃ u t, goEsc 0 0 (c :: bs) = u ++ goEsc 0 0 t ∧ t.length ≤ bs.length ∧ SpanUnit u := by
  by_cases h80 : c.toNat < 0x80
  · exact ⟨asciiEsc c, bs, by simp [goEsc, h80], Nat.le_refl _, spanUnit_asciiEsc c h80⟩
  · rcases seqLen_two_plus (bs := bs) h80 with h0 | ⟨k, hk⟩
    · exact ⟨escFFFD, bs, by simp [goEsc, h80, h0], Nat.le_refl _, spanUnit_escFFFD⟩
    · obtain ⟨pre, t, hs, hlenp, hplain, hc80, _⟩ := seqLen_spec c bs k hk
      subst hs
      cases hsd : sepDigit c (pre ++ t) with
      | some d =>
        obtain ⟨_, b2, t', _, hd⟩ := sepDigit_spec hsd
        refine ⟨escSep d, t, ?_, by simp, spanUnit_escSep d (by rcases hd with ⟨h, _⟩ | ⟨h, _⟩ <;> simp [h])⟩
        simp only [goEsc, h80, if_false, hk, hsd]
        rw [← hlenp, goEsc_drop]
      | none =>
        refine ⟨c :: pre, t, ?_, by simp, spanUnit_high (c :: pre) ?_⟩
        · simp only [goEsc, h80, if_false, hk, hsd]
          rw [← hlenp, goEsc_copy]; simp
        · intro x hx
          simp at hx
          rcases hx with rfl | hx
          · exact hc80
          · exact hplain x hx

theorem span_goEsc : ∀ (n : Nat) (s : Bytes), s.length = n → ∀ r,
    spanGo 0 (goEsc 0 0 s ++ 0x22 :: r) = some (goEsc 0 0 s).length := by
  intro n
  induction n using Nat.strongRecOn with
  | ind n ih =>
    intro s hn r
    cases s with
    | nil => simp [goEsc, spanGo]
    | cons c bs =>
      obtain ⟨u, t, he, hlt, hu⟩ := goEsc_step c bs
      rw [he, List.append_assoc, hu, ih t.length (by simp at hn; omega) t rfl r]
      simp [Nat.add_comm]

theorem spanStr_goEscape (s r : Bytes) : spanStr (goEscape s ++ 0x22 :: r) = some (goEscape s).length :=
  span_goEsc s.length s rfl r

/-- The JSON reader reads the literal `json.Marshal` wrote as the sanitized string. -/
theorem lexGo_goStr (s r : Bytes) : lexGo 0 (goStr s ++ r) = consTok (.str (sanitize s)) (lexGo 0 r) := by
  unfold goStr
  simp only [List.cons_append, List.append_assoc, List.nil_append]
  rw [lexGo]
  simp only [show isWs 0x22 = false from by decide, show (0x22 : UInt8).toNat = 0x22 from by decide]
  simp only [spanStr_goEscape, List.take_left', unquote_goEscape]
  have := lexGo_skip (goEscape s ++ [0x22]) r
  simp only [List.length_append, List.length_cons, List.length_nil, List.append_assoc, List.cons_append, List.nil_append] at this
  simp [this]

/-! ## `sanitize` -/

theorem sanGo_valid : ∀ (n : Nat) (s : Bytes), s.length = n → validGo 0 s = true → sanGo 0 s = s := by
  intro n
  induction n using Nat.strongRecOn with
  | ind n ih =>
    intro s hn hv
    cases s with
    | nil => simp [sanGo]
    | cons c bs =>
      rw [validGo] at hv
      match hlen : seqLen c bs with
      | 0 => simp [hlen] at hv
      | 1 =>
        simp only [hlen] at hv
        simp only [sanGo, hlen]
        rw [ih bs.length (by simp at hn; omega) bs rfl hv]
      | k + 2 =>
        simp only [hlen] at hv
        obtain ⟨pre, t, hs, hlenp, _, _, _⟩ := seqLen_spec c bs k hlen
        subst hs
        simp only [sanGo, hlen]
        rw [← hlenp, sanGo_copy]
        rw [← hlenp, validGo_drop] at hv
        simp at hv
        rw [ih t.length (by simp at hn; omega) t rfl hv]

theorem sanitize_valid (s : Bytes) (h : ValidUtf8 s) : sanitize s = s := sanGo_valid s.length s rfl h

theorem valid_sanitize (s : Bytes) : ValidUtf8 (sanitize s) := by
  rw [← unquote_goEscape]; exact valid_unquote _

theorem sanitize_eq_iff (s : Bytes) : sanitize s = s ↔ ValidUtf8 s :=
  ⟨fun h => h ▸ valid_sanitize s, sanitize_valid s⟩

theorem sanitize_idem (s : Bytes) : sanitize (sanitize s) = sanitize s :=
  sanitize_valid _ (valid_sanitize s)

/-! ## The array of strings -/

/-- What the reader makes of a marshalled `[]string`. -/
def strVals (l : List Bytes) : List JVal := l.map fun s => .str (sanitize s)

theorem lex_goStrTail : ∀ (xs : List Bytes) (r : Bytes),
    lexGo 0 (goStrTail xs ++ r) = (lexGo 0 r).map (toksTail (strVals xs) ++ ·)
  | [], r => by
    simp only [goStrTail, strVals, List.map_nil, toksTail, List.cons_append, List.nil_append]
    rw [lexGo_punct 0x5D .rbrack _ (by decide)]
    cases lexGo 0 r <;> simp [consTok]
  | x :: xs, r => by
    simp only [goStrTail, strVals, List.map_cons, toksTail, toks, List.cons_append, List.append_assoc]
    rw [lexGo_punct 0x2C .comma _ (by decide), lexGo_goStr, lex_goStrTail xs r]
    cases lexGo 0 r <;> simp [consTok, strVals]

theorem lex_goStrList (xs : List Bytes) (r : Bytes) :
    lexGo 0 (goStrList xs ++ r) = (lexGo 0 r).map (toks (.arr (strVals xs)) ++ ·) := by
  cases xs with
  | nil =>
    simp only [goStrList, strVals, List.map_nil, toks, List.cons_append, List.nil_append]
    rw [lexGo_punct 0x5B .lbrack _ (by decide), lexGo_punct 0x5D .rbrack _ (by decide)]
    cases lexGo 0 r <;> simp [consTok]
  | cons x xs =>
    simp only [goStrList, strVals, List.map_cons, toks, List.cons_append, List.append_assoc]
    rw [lexGo_punct 0x5B .lbrack _ (by decide), lexGo_goStr, lex_goStrTail xs r]
    cases lexGo 0 r <;> simp [consTok, strVals]

theorem depthL_strVals (xs : List Bytes) : depthL (strVals xs) = 0 := by
  induction xs with
  | nil => simp [strVals, depthL]
  | cons x xs ih => simp [strVals, depthL, depth] at ih ⊢; exact ih

theorem parse_goStrList (xs : List Bytes) : Json.parse (goStrList xs) = some (.arr (strVals xs)) := by
  have h := lex_goStrList xs []
  simp only [List.append_nil, lexGo, Option.map_some] at h
  have hd : depth (.arr (strVals xs)) ≤ maxDepth := by simp [depth, depthL_strVals, maxDepth]
  simp [Json.parse, lex, h, parseToks_toks _ hd]

theorem mapM_elemStr_strVals (xs : List Bytes) : (strVals xs).mapM elemStr = some (xs.map sanitize) := by
  induction xs with
  | nil => rfl
  | cons x xs ih =>
    simp only [strVals, List.map_cons, List.mapM_cons, elemStr] at ih ⊢
    rw [ih]; rfl

/-- `json.Unmarshal` of what `json.Marshal` wrote for a `[]string`: the sanitized strings. -/
theorem decodeStrList_goStrList (xs : List Bytes) : decodeStrList (goStrList xs) = some (xs.map sanitize) := by
  simp [decodeStrList, parse_goStrList, mapM_elemStr_strVals]

theorem decodeIDE_encode_list (xs : List Bytes) :
    decodeIDE (B64Url.encode (goStrList xs)) =
      match xs.map sanitize with
      | [a, b] => .ok (a, b)
      | _ => .error .length := by
  simp only [decodeIDE, B64Url.decode_encode, decodeStrList_goStrList]
  split <;> rename_i h <;> simp_all

theorem decodeID_encodeID (a b : Bytes) : decodeID (encodeID a b) = some (sanitize a, sanitize b) := by
  simp [decodeID, encodeID, decodeIDE_encode_list]

/-! ## What `decodeID` accepts -/

theorem mapM_elemStr_length : ∀ (xs : List JVal) (l : List Bytes), xs.mapM elemStr = some l → l.length = xs.length
  | [], l, h => by simp [List.mapM_nil] at h; subst h; rfl
  | x :: xs, l, h => by
    simp only [List.mapM_cons] at h
    cases hx : elemStr x with
    | none => simp [hx] at h
    | some a =>
      cases hm : xs.mapM elemStr with
      | none => simp [hx, hm] at h
      | some l' =>
        simp [hx, hm] at h
        subst h
        simp [mapM_elemStr_length xs l' hm]

theorem mapM_elemStr_none : ∀ (xs : List JVal), (∃ x ∈ xs, elemStr x = none) → xs.mapM elemStr = none
  | [], h => by simp at h
  | y :: ys, h => by
    simp only [List.mapM_cons]
    cases hy : elemStr y with
    | none => rfl
    | some a =>
      have : ∃ x ∈ ys, elemStr x = none := by
        obtain ⟨x, hx, hxn⟩ := h
        simp at hx
        rcases hx with rfl | hx
        · rw [hy] at hxn; cases hxn
        · exact ⟨x, hx, hxn⟩
      simp [mapM_elemStr_none ys this]

theorem mapM_elemStr_some : ∀ (xs : List JVal), (∀ x ∈ xs, elemStr x ≠ none) → ∃ l, xs.mapM elemStr = some l
  | [], _ => ⟨[], rfl⟩
  | y :: ys, h => by
    obtain ⟨l, hl⟩ := mapM_elemStr_some ys (fun x hx => h x (by simp [hx]))
    cases hy : elemStr y with
    | none => exact absurd hy (h y (by simp))
    | some a => exact ⟨a :: l, by simp [List.mapM_cons, hy, hl]⟩

deriving instance DecidableEq for Except

theorem decodeStrList_pair (data a b : Bytes) :
    decodeStrList data = some [a, b] ↔
      ∃ x y, Json.parse data = some (.arr [x, y]) ∧ elemStr x = some a ∧ elemStr y = some b := by
  unfold decodeStrList
  constructor
  · intro h
    cases hp : Json.parse data with
    | none => simp [hp] at h
    | some v =>
      simp only [hp] at h
      cases v with
      | arr xs =>
        simp only at h
        have hl := mapM_elemStr_length xs _ h
        match xs, hl with
        | [x, y], _ =>
          refine ⟨x, y, rfl, ?_⟩
          cases hx : elemStr x <;> cases hy : elemStr y <;> simp_all [List.mapM_cons, List.mapM_nil]
      | null => simp at h
      | bool _ => simp at h
      | num _ => simp at h
      | str _ => simp at h
      | obj _ => simp at h
  · rintro ⟨x, y, hp, hx, hy⟩
    simp [hp, List.mapM_cons, List.mapM_nil, hx, hy]

theorem decodeIDE_ok_iff (id a b : Bytes) :
    decodeIDE id = .ok (a, b) ↔ ∃ data, B64Url.decode id = some data ∧ decodeStrList data = some [a, b] := by
  unfold decodeIDE
  constructor
  · intro h
    cases hd : B64Url.decode id with
    | none => simp [hd] at h
    | some data =>
      simp only [hd] at h
      refine ⟨data, rfl, ?_⟩
      split at h
      · simp at h
      · rename_i a' b' heq
        simp at h
        rw [heq, h.1, h.2]
      · simp at h
  · rintro ⟨data, hd, hl⟩
    simp [hd, hl]

theorem decodeID_some_iff (id a b : Bytes) :
    decodeID id = some (a, b) ↔
      ∃ data x y, B64Url.decode id = some data ∧ Json.parse data = some (.arr [x, y]) ∧
        elemStr x = some a ∧ elemStr y = some b := by
  have h1 : decodeID id = some (a, b) ↔ decodeIDE id = .ok (a, b) := by
    unfold decodeID
    cases decodeIDE id <;> simp
  rw [h1, decodeIDE_ok_iff]
  constructor
  · rintro ⟨data, hd, hl⟩
    obtain ⟨x, y, hp, hx, hy⟩ := (decodeStrList_pair data a b).mp hl
    exact ⟨data, x, y, hd, hp, hx, hy⟩
  · rintro ⟨data, x, y, hd, hp, hx, hy⟩
    exact ⟨data, hd, (decodeStrList_pair data a b).mpr ⟨x, y, hp, hx, hy⟩⟩

theorem elemStr_valid {x : JVal} {a : Bytes} (hw : WF x) (h : elemStr x = some a) : ValidUtf8 a := by
  cases x <;> simp [elemStr] at h
  · subst h; decide
  · subst h; simpa [WF] using hw

/-- Whatever a member is resumed with is well-formed UTF-8. -/
theorem decodeID_valid {id a b : Bytes} (h : decodeID id = some (a, b)) : ValidUtf8 a ∧ ValidUtf8 b := by
  obtain ⟨data, x, y, _, hp, hx, hy⟩ := (decodeID_some_iff id a b).mp h
  have hw := (parse_wf data _ hp).1
  simp only [WF, WFL] at hw
  exact ⟨elemStr_valid hw.1 hx, elemStr_valid hw.2.1 hy⟩

/-! ## The ID as a path segment -/

theorem encChar_b64url : ∀ n, n < 64 → isB64UrlChar (B64Url.encChar n) = true := by decide

theorem encode_alphabet (x : Bytes) : ∀ c ∈ B64Url.encode x, isB64UrlChar c = true := by
  intro c hc
  rw [B64Url.encode_eq_map] at hc
  obtain ⟨n, hn, rfl⟩ := List.mem_map.mp hc
  exact encChar_b64url n (B64Url.vals_lt x n hn)

theorem isB64UrlChar_ascii {c : UInt8} (h : isB64UrlChar c = true) : c < 0x80 := by
  have : c.toNat < 0x80 := by
    simp [isB64UrlChar] at h
    omega
  exact UInt8.lt_iff_toNat_lt.mpr this

theorem validUTF8_ascii (s : Bytes) (h : ∀ c ∈ s, c < 0x80) : B64Url.validUTF8 s = true := by
  induction s with
  | nil => rfl
  | cons c s ih =>
    have hc := h c (by simp)
    unfold B64Url.validUTF8
    rw [if_pos hc]
    exact ih (fun x hx => h x (by simp [hx]))

theorem goStrList_ne_nil (xs : List Bytes) : goStrList xs ≠ [] := by
  cases xs <;> simp [goStrList]

end OciModel.UnifyID
