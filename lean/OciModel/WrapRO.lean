/-
Model of `ocifilter.ReadOnly` (readonly.go) and `ocifilter.Immutable` (immutable.go)
as wrappers around an arbitrary deterministic backend `B : S → Op → S × Out`.

The call alphabet `Op` and result type `Out` are those of `OciModel/Mem.lean`
(the 18 interface methods plus the BlobWriter methods); nothing here assumes
that `B` is the in-memory registry.

`ReadOnly` is pure method-set shadowing: the generated table
`Generated.WrapRO.readOnlySource` says which embedded field supplies each method
("wrapped" or the nil `*ociregistry.Funcs`); the behaviour of a nil `*Funcs` is
the model of C20 (`OciModel.Funcs.call` on the generated `func.go` table).

`Immutable` overrides `PushManifest` (resolve / push / resolve) and the three
delete methods (`return ociregistry.ErrDenied`); the generated facts say so.
-/
import OciModel.Base
import OciModel.Mem
import OciModel.Funcs
import OciModel.Generated.WrapRO
import OciModel.Generated.Iface

namespace OciModel.WrapRO
open OciModel.Mem (Op Out)
open OciModel.Generated OciModel.Generated.WrapRO

abbrev Backend (S : Type) := S → Op → S × Out

/-- The interface method behind an operation; the BlobWriter methods have none. -/
def methodOf : Op → Option String
  | .getBlob .. => some "GetBlob"
  | .getBlobRange .. => some "GetBlobRange"
  | .getManifest .. => some "GetManifest"
  | .getTag .. => some "GetTag"
  | .resolveBlob .. => some "ResolveBlob"
  | .resolveManifest .. => some "ResolveManifest"
  | .resolveTag .. => some "ResolveTag"
  | .pushBlob .. => some "PushBlob"
  | .pushChunked .. => some "PushBlobChunked"
  | .resume .. => some "PushBlobChunkedResume"
  | .mount .. => some "MountBlob"
  | .pushManifest .. => some "PushManifest"
  | .deleteBlob .. => some "DeleteBlob"
  | .deleteManifest .. => some "DeleteManifest"
  | .deleteTag .. => some "DeleteTag"
  | .repositories .. => some "Repositories"
  | .tags .. => some "Tags"
  | .referrers .. => some "Referrers"
  | .wWrite .. | .wSize .. | .wCancel .. | .wCommit .. => none

def isReadMethod (m : String) : Bool := Iface.readerMethods.contains m || Iface.listerMethods.contains m
def isMutatorMethod (m : String) : Bool := Iface.writerMethods.contains m || Iface.deleterMethods.contains m

def isReadOp (op : Op) : Bool := match methodOf op with
  | some m => isReadMethod m
  | none => false

def isDeleteOp : Op → Bool
  | .deleteBlob .. | .deleteManifest .. | .deleteTag .. => true
  | _ => false

/-! ### ReadOnly -/

inductive Source where
  | wrapped | nilFuncs | other
  deriving DecidableEq, Repr

def sourceOf (m : String) : Source :=
  match readOnlySource.lookup m with
  | some ("wrapped", _) => .wrapped
  | some ("nilFuncs", _) => .nilFuncs
  | _ => .other

def funcsRow (m : String) : Option Generated.Funcs.Row := Generated.Funcs.table.find? (·.method == m)

/-- A nil `*ociregistry.Funcs`. -/
def nilFuncs : Funcs.Cfg := { nilRecv := true, set := fun _ => false, hasNewError := false }

/-- One call through `ReadOnly(B)`: new backend state, result (`none`: the
source no longer has the modelled shape, or the call would panic), and the
calls made on the backend. -/
def roStep {S} (B : Backend S) (s : S) (op : Op) : S × Option Out × List Op :=
  match methodOf op with
  | none => (s, none, [])          -- no BlobWriter is ever handed out
  | some m =>
    match sourceOf m with
    | .wrapped => ((B s op).1, some (B s op).2, [op])
    | .nilFuncs =>
      match funcsRow m with
      | none => (s, none, [])
      | some row =>
        match Funcs.call nilFuncs row with
        | .unset _ _ false _ => (s, some (.err "UNSUPPORTED"), [])     -- "<method>: unsupported" wrapping ErrUnsupported
        | _ => (s, none, [])
    | .other => (s, none, [])

def roRun {S} (B : Backend S) (s : S) : List Op → S × List Op
  | [] => (s, [])
  | op :: ops =>
    let r := roStep B s op
    let rest := roRun B r.1 ops
    (rest.1, r.2.2 ++ rest.2)

/-- Decidable statement of the structural fact: every Reader and Lister method is
supplied by the wrapped registry, every Writer and Deleter method by the nil
`*Funcs`, whose row in `func.go` is well-formed (C20). -/
def ReadOnlyOk : Bool :=
  readOnlyShapeKnown &&
  (Iface.readerMethods ++ Iface.listerMethods).all (fun m => sourceOf m == .wrapped) &&
  (Iface.writerMethods ++ Iface.deleterMethods).all (fun m =>
    sourceOf m == .nilFuncs && match funcsRow m with
      | some row => Funcs.RowOk row && row.method == m
      | none => false)

/-! ### Immutable -/

/-- `immutable.PushManifest` for a non-empty tag. -/
def immPush {S} (H : Bytes → Bytes) (B : Backend S) (s : S) (r t data mt : Bytes) (dec : Mem.Decoded) :
    S × Option Out × List Op :=
  let rt := Op.resolveTag r t
  let push := Op.pushManifest r t data mt dec
  let s1 := (B s rt).1
  match (B s rt).2 with
  | .okDesc d =>
    -- the tag exists: only the very same content may be "pushed" again
    if d.digest = H data then (s1, some (.okDesc d), [rt]) else (s1, some (.err "DENIED"), [rt])
  | _ =>
    let s2 := (B s1 push).1
    match (B s1 push).2 with
    | .err e => (s2, some (.err e), [rt, push])
    | _ =>
      let s3 := (B s2 rt).1
      match (B s2 rt).2 with
      | .okDesc d =>
        if d.digest ≠ H data then (s3, some (.err "DENIED"), [rt, push, rt]) else (s3, some (.okDesc d), [rt, push, rt])
      | _ => (s3, some (.err "ERR"), [rt, push, rt])

def immStep {S} (H : Bytes → Bytes) (B : Backend S) (s : S) (op : Op) : S × Option Out × List Op :=
  match methodOf op with
  | none => ((B s op).1, some (B s op).2, [op])      -- the BlobWriter is the backend's own
  | some m =>
    if immutableDenies.contains m then (s, some (.err "DENIED"), [])
    else if immutableOverrides.contains m then
      match op with
      | .pushManifest r t data mt dec =>
        if !immutablePushKnown then (s, none, [])
        else if t = [] then ((B s op).1, some (B s op).2, [op])
        else immPush H B s r t data mt dec
      | _ => (s, none, [])
    else ((B s op).1, some (B s op).2, [op])

def immRun {S} (H : Bytes → Bytes) (B : Backend S) (s : S) : List Op → S × List Op
  | [] => (s, [])
  | op :: ops =>
    let r := immStep H B s op
    let rest := immRun H B r.1 ops
    (rest.1, r.2.2 ++ rest.2)

def ImmutableOk : Bool :=
  immutableTypeKnown && immutablePushKnown &&
  immutableOverrides == ["DeleteBlob", "DeleteManifest", "DeleteTag", "PushManifest"] &&
  immutableDenies == ["DeleteBlob", "DeleteManifest", "DeleteTag"]

/-- A backend call that can move tag `t` of repository `r`. -/
def isPushTo (r t : Bytes) : Op → Bool
  | .pushManifest r' t' _ _ _ => r' == r && t' == t
  | _ => false

end OciModel.WrapRO
