/-
Model of `ociclient.blobReader` (client.go): the reader the HTTP client hands out hashes and
counts what it relays; it fails as soon as more than `desc.size` bytes have arrived, and at
end-of-stream — when verifying — if the count or the digest disagree with the descriptor.
The body arrives as an arbitrary sequence of chunks (one per underlying `Read`).
-/
import OciModel.Base

namespace OciModel.BlobReader

inductive Res where
  | eof (relayed : Bytes)        -- clean end-of-stream after relaying these bytes
  | tooLong (relayed : Bytes)    -- SIZE_INVALID: more than desc.size bytes arrived
  | sizeMismatch (relayed : Bytes)
  | digestMismatch (relayed : Bytes)
  deriving DecidableEq, Repr

/-- `Read` called until it reports something other than "more data": `acc` is what has been
relayed so far (Go's `r.n` is its length, the digester has absorbed exactly `acc`). A chunk is
relayed to the caller even when the call that delivers it returns the size error. -/
def readAll (H : Bytes → Bytes) (verify : Bool) (size : Nat) (digest : Bytes) : Bytes → List Bytes → Res
  | acc, [] =>
    if !verify then .eof acc
    else if acc.length ≠ size then .sizeMismatch acc
    else if H acc ≠ digest then .digestMismatch acc
    else .eof acc
  | acc, c :: rest =>
    if (acc ++ c).length > size then .tooLong (acc ++ c)
    else readAll H verify size digest (acc ++ c) rest

/-- `descriptorFromResponse` (client.go): the digest the reader verifies against. The digest the caller
asked for wins over the `Docker-Content-Digest` header of the response (fix F31); the header counts only
when the caller named no digest (a read through a tag). -/
def descDigest (asked hdr : Bytes) : Bytes := if asked ≠ [] then asked else hdr

def Res.clean : Res → Bool
  | .eof _ => true
  | _ => false

def Res.relayed : Res → Bytes
  | .eof b | .tooLong b | .sizeMismatch b | .digestMismatch b => b

end OciModel.BlobReader
