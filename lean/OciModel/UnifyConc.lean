/-
C16 (partial) — the concurrent read protocol of `ociunify`:
`runReadConcurrent` (unify.go) together with its callers `runRead`
(resolve-style: cancel immediately) and `runReadBlobReader` + `blobReader.Close`
(reader-style: cancel when the returned reader is closed).

TRUSTED, NOT VERIFIED HERE: the semantics of goroutines, unbuffered channels,
`select`, `close` on a channel and `context.WithCancel` are the primitives of
this model. The model is a finite transition system whose atomic steps are the
communication events of the Go code; every interleaving the Go scheduler may
produce is a path of the system. The theorems are about the protocol built from
those primitives.

Transcription (line numbers of unify.go at the pinned commit; the text of the
function is pinned by `OciModel.Generated.Unify.helpers`):

  main        first select (145–153), second select (155–160), returned;
              `defer close(done)` (127) happens together with the return
  sender i    running  = inside `f(ctx, reg, i)` (135)
              offering = at the select of 136–141
              delivered = `c <- result{r, cancel}` was taken by main
              released  = `<-done` was taken: `r.close(); cancel()`
  cancelᵢ     the cancel function of sender i's context has been called
  closedᵢ     the reader returned by member i has been closed
  caller      may cancel its context at any moment; closes the returned reader
              at any moment after the return (reader-style only)

A member that returns only after its context is cancelled just has its
`memberReturn` step enabled later: its behaviours are a subset of the paths
considered here.

Core Lean only.
-/
namespace OciModel.UnifyConc

inductive Main where
  | sel1 | sel2 | returned
  deriving DecidableEq, Repr

inductive Sender where
  | running | offering | delivered | released
  deriving DecidableEq, Repr

/-- What the call returned: nothing yet, member i's result, or `ctx.Err()`. -/
inductive Ret where
  | none | res0 | res1 | ctxErr
  deriving DecidableEq, Repr

/-- The scenario: whether each member answers with success, and which kind of
entry point is called (`resolveStyle`: ResolveBlob / ResolveManifest, whose
wrapper `runRead` cancels at once and whose result is not a reader). -/
structure Cfg where
  ok0 : Bool
  ok1 : Bool
  resolveStyle : Bool
  deriving DecidableEq, Repr

structure St where
  main : Main
  ret : Ret
  s0 : Sender
  s1 : Sender
  closed0 : Bool
  closed1 : Bool
  cancel0 : Bool
  cancel1 : Bool
  callerCancelled : Bool
  retClosed : Bool
  deriving DecidableEq, Repr

def init : St := ⟨.sel1, .none, .running, .running, false, false, false, false, false, false⟩

def Cfg.ok (c : Cfg) (i : Bool) : Bool := if i then c.ok1 else c.ok0
def St.sender (s : St) (i : Bool) : Sender := if i then s.s1 else s.s0
def St.closed (s : St) (i : Bool) : Bool := if i then s.closed1 else s.closed0
def St.cancel (s : St) (i : Bool) : Bool := if i then s.cancel1 else s.cancel0
def St.setSender (s : St) (i : Bool) (v : Sender) : St := if i then { s with s1 := v } else { s with s0 := v }
def St.setClosed (s : St) (i : Bool) (v : Bool) : St := if i then { s with closed1 := v } else { s with closed0 := v }
def St.setCancel (s : St) (i : Bool) (v : Bool) : St := if i then { s with cancel1 := v } else { s with cancel0 := v }
def resOf (i : Bool) : Ret := if i then .res1 else .res0

/-- `f(ctx, reg, i)` returns. -/
def memberReturn (s : St) (i : Bool) : List St :=
  if s.sender i = .running then [s.setSender i .offering] else []

/-- Main takes sender i's result from `c`. -/
def deliver (cfg : Cfg) (s : St) (i : Bool) : List St :=
  if s.sender i = .offering then
    let s' := s.setSender i .delivered
    match s.main with
    | .sel1 =>
      if cfg.ok i then
        -- return r.r, r.cancel; runRead cancels at once
        let s'' := { s' with main := .returned, ret := resOf i }
        [if cfg.resolveStyle then s''.setCancel i true else s'']
      else
        -- r.cancel(); fall through to the second select
        [{ s'.setCancel i true with main := .sel2 }]
    | .sel2 =>
      -- return r.r, r.cancel whatever it is; on error runReadBlobReader cancels at once
      let s'' := { s' with main := .returned, ret := resOf i }
      [if cfg.resolveStyle || !cfg.ok i then s''.setCancel i true else s'']
    | .returned => []
  else []

/-- Sender i finds `done` closed: `r.close(); cancel()`. -/
def release (cfg : Cfg) (s : St) (i : Bool) : List St :=
  if s.sender i = .offering ∧ s.main = .returned then
    let s' := (s.setSender i .released).setCancel i true
    [if cfg.ok i && !cfg.resolveStyle then s'.setClosed i true else s']
  else []

/-- Main takes `<-ctx.Done()`. -/
def mainCtxDone (s : St) : List St :=
  if s.main ≠ .returned ∧ s.callerCancelled then [{ s with main := .returned, ret := .ctxErr }] else []

/-- The caller cancels the context it passed. -/
def callerCancel (s : St) : List St :=
  if s.callerCancelled then [] else [{ s with callerCancelled := true }]

/-- The caller closes the reader it was given: `blobReader.Close` closes the
member's reader, then cancels. -/
def callerClose (cfg : Cfg) (s : St) (i : Bool) : List St :=
  if s.main = .returned ∧ s.ret = resOf i ∧ cfg.ok i ∧ !cfg.resolveStyle ∧ !s.retClosed then
    [{ (s.setClosed i true).setCancel i true with retClosed := true }]
  else []

/-- Steps of the code under analysis. -/
def sysStep (cfg : Cfg) (s : St) : List St :=
  memberReturn s false ++ memberReturn s true ++ deliver cfg s false ++ deliver cfg s true ++
  release cfg s false ++ release cfg s true ++ mainCtxDone s

/-- Steps of the environment (the caller). -/
def envStep (cfg : Cfg) (s : St) : List St :=
  callerCancel s ++ callerClose cfg s false ++ callerClose cfg s true

/-- Every enabled atomic transition. -/
def step (cfg : Cfg) (s : St) : List St := sysStep cfg s ++ envStep cfg s

/-- All schedules: the states reachable from `init`. -/
inductive Reach (cfg : Cfg) : St → Prop where
  | init : Reach cfg init
  | step {s s'} : Reach cfg s → s' ∈ step cfg s → Reach cfg s'

/-! ### The reachable set, computed -/

def addNew (seen acc : List St) (s : St) : List St :=
  if acc.contains s || seen.contains s then acc else s :: acc

def bfs (cfg : Cfg) : Nat → List St → List St → List St
  | 0, seen, _ => seen
  | _ + 1, seen, [] => seen
  | n + 1, seen, frontier =>
    let next := (frontier.flatMap (step cfg)).foldl (addNew seen) []
    bfs cfg n (seen ++ next) next

def reachable (cfg : Cfg) : List St := bfs cfg 40 [init] [init]

/-- `R` contains `init` and is closed under `step`. -/
def closedUnder (cfg : Cfg) (R : List St) : Bool :=
  R.contains init && R.all fun s => (step cfg s).all fun s' => R.contains s'

def allCfgs : List Cfg :=
  [⟨false, false, false⟩, ⟨false, true, false⟩, ⟨true, false, false⟩, ⟨true, true, false⟩,
   ⟨false, false, true⟩, ⟨false, true, true⟩, ⟨true, false, true⟩, ⟨true, true, true⟩]

/-! ### What must hold -/

def other (i : Bool) : Bool := !i

/-- implication on `Bool`s -/
def imp (a b : Bool) : Bool := !a || b

/-- Safety, in every reachable state, for member `i`. -/
def safeAt (cfg : Cfg) (s : St) (i : Bool) : Bool :=
  -- (1) while the returned reader is open, the chosen member's context has not been
  --     cancelled by ociunify and its reader has not been closed
  imp (s.main == .returned && s.ret == resOf i && cfg.ok i && !cfg.resolveStyle && !s.retClosed)
      (!s.cancel i && !s.closed i) &&
  -- (2) once the caller has closed it, the member's reader is closed and the context cancelled
  imp (s.ret == resOf i && s.retClosed) (s.closed i && s.cancel i) &&
  -- (3) a failure is returned only when both members failed …
  imp (s.ret == resOf i && !cfg.ok i) (!cfg.ok0 && !cfg.ok1) &&
  -- (4) … a returned success is the first successful answer main received
  imp (s.ret == resOf i && cfg.ok i) (!(s.sender (other i) == .delivered && cfg.ok (other i))) &&
  -- (5) a reader is only ever closed if it exists
  imp (s.closed i) (cfg.ok i && !cfg.resolveStyle) &&
  -- (6) resolve-style calls and failed calls cancel at once
  imp (s.ret == resOf i && (cfg.resolveStyle || !cfg.ok i)) (s.cancel i)

def safe (cfg : Cfg) (s : St) : Bool :=
  -- (0) the context error is returned only if the caller cancelled; nothing is returned before the return
  imp (s.ret == .ctxErr) s.callerCancelled &&
  ((s.main == .returned) == (s.ret != .none)) &&
  imp s.retClosed (s.main == .returned && (s.ret == .res0 || s.ret == .res1)) &&
  safeAt cfg s false && safeAt cfg s true

/-- In a state where the code under analysis can take no further step. -/
def settledAt (cfg : Cfg) (s : St) (i : Bool) : Bool :=
  -- no sender goroutine is left running or blocked
  (s.sender i == .delivered || s.sender i == .released) &&
  -- a reader opened on a member that was not chosen has been closed
  imp (cfg.ok i && !cfg.resolveStyle && s.ret != resOf i) (s.closed i) &&
  -- and its context cancelled
  imp (s.ret != resOf i) (s.cancel i)

def settled (cfg : Cfg) (s : St) : Bool :=
  s.main == .returned && settledAt cfg s false && settledAt cfg s true &&
  -- without cancellation by the caller the result is the first success, if there is one
  imp (!s.callerCancelled) ((s.ret == .res0 && (cfg.ok0 || !cfg.ok1)) || (s.ret == .res1 && (cfg.ok1 || !cfg.ok0)))

def quiescent (cfg : Cfg) (s : St) : Bool := (sysStep cfg s).isEmpty

/-- The whole check for one configuration, over a given set of states. -/
def checkAll (cfg : Cfg) (R : List St) : Bool :=
  closedUnder cfg R && R.all (fun s => safe cfg s && imp (quiescent cfg s) (settled cfg s))

end OciModel.UnifyConc
