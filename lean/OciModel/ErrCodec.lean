/-
Model of the error codec: `ociregistry.MarshalError` (server side),
`ociclient.makeError` (client side), and `errors.Is`/`errors.As` over the error
values the repository builds.

Go error values are an inductive `Err`; `errors.As`/`errors.Is` are the standard
pre-order traversals honouring the two custom `Is` methods (`WireError.Is`
compares codes; `httpError.Is` maps status 416 to `ErrRangeInvalid`).

Parameters (standard library behaviour, not verified): `S` = the status prefix
`"<status> <http.StatusText status>"`, `C` = the code prefix
(`appendErrorCodePrefix`); the theorems hold for every `S`, `C`. JSON encoding
of message text is the identity on valid UTF-8 (the correspondence generates
valid UTF-8; `encoding/json` replaces invalid bytes, idempotently).
-/
import OciModel.Base
import OciModel.Generated.ErrorTable

namespace OciModel.ErrCodec

/-- (code, message, detail) of a `WireError`; detail `none` = no detail. -/
abbrev Wire := Bytes × Bytes × Option Bytes

inductive Err where
  | wire    (w : Wire)                       -- *WireError
  | wires   (hd : Wire) (tl : List Wire)     -- *WireErrors (non-empty); Unwrap() []error
  | httpNil (st : Nat)                       -- *httpError with nil underlying
  | http    (st : Nat) (inner : Err)         -- *httpError
  | wrapf   (pre : Bytes) (inner : Err) (post : Bytes)   -- fmt.Errorf(pre + "%w" + post, inner)
  | plain   (msg : Bytes)                    -- errors.New(msg)
  deriving Repr, DecidableEq

def colonSp : Bytes := [58, 32]
def semiSp  : Bytes := [59, 32]

section
variable (S : Nat → Bytes) (C : Bytes → Bytes) (compact : Bytes → Bytes)

/-- `WireError.Error` -/
def wireText (w : Wire) : Bytes :=
  C w.1 ++ (if w.2.1 ≠ [] then colonSp ++ w.2.1 else [])

/-- `err.Error()` -/
def text : Err → Bytes
  | .wire w => wireText C w
  | .wires hd tl => wireText C hd ++ (tl.flatMap fun w => semiSp ++ wireText C w)
  | .httpNil st => S st
  | .http st i => S st ++ colonSp ++ text i
  | .wrapf pre i post => pre ++ text i ++ post
  | .plain m => m

/-- `errors.As(err, &ociregistry.Error)`: the first node in pre-order that has a
`Code` method. -/
def asOci : Err → Option Wire
  | .wire w => some w
  | .wires hd _ => some hd
  | .httpNil _ => none
  | .http _ i => asOci i
  | .wrapf _ i _ => asOci i
  | .plain _ => none

/-- `errors.As(err, &ociregistry.HTTPError)` -/
def asHTTP : Err → Option Nat
  | .wire _ => none
  | .wires _ _ => none
  | .httpNil st => some st
  | .http st _ => some st
  | .wrapf _ i _ => asHTTP i
  | .plain _ => none

def codeRangeInvalid : Bytes := [82, 65, 78, 71, 69, 95, 73, 78, 86, 65, 76, 73, 68]
def codeUnknown : Bytes := [85, 78, 75, 78, 79, 87, 78]

/-- `errors.Is(err, std)` where `std` is one of the package's `Err*` values with
code `c`. -/
def is (c : Bytes) : Err → Bool
  | .wire w => w.1 == c
  | .wires hd tl => hd.1 == c || tl.any (·.1 == c)
  | .httpNil st => st == 416 && c == codeRangeInvalid
  | .http st i => (st == 416 && c == codeRangeInvalid) || is c i
  | .wrapf _ i _ => is c i
  | .plain _ => false

/-- `strings.TrimPrefix` -/
def trimPrefix (p s : Bytes) : Bytes := if p.isPrefixOf s then s.drop p.length else s

/-- `trimErrorCodePrefix` (the status is never 0 and the code never empty at its
only call site). A text that is just the code prefix is what an error with an
empty message prints: it is trimmed to the empty message. -/
def trim (st : Nat) (code : Bytes) (msg : Bytes) : Bytes :=
  let m := trimPrefix (S st ++ colonSp) msg
  if m = C code then [] else trimPrefix (C code ++ colonSp) m

/-- The `errorStatuses` map, regenerated from error.go. -/
def tableStatus (table : List (Bytes × Nat)) (code : Bytes) : Option Nat :=
  (table.find? (·.1 == code)).map (·.2)

def msgOf (e : Err) : Bytes := match asOci e with | some w => w.2.1 | none => []
def codeOf (e : Err) : Bytes := match asOci e with | some w => w.1 | none => []
def detailOf (e : Err) : Option Bytes := match asOci e with | some w => w.2.2 | none => none

/-- The code `MarshalError` sends: the error's code, `UNKNOWN` when it has none. -/
def wireCode (e : Err) : Bytes := if codeOf e = [] then codeUnknown else codeOf e

/-- The error's own HTTP status as `MarshalError` accepts it: an error status (4xx, 5xx), else 500
(fix F29: any status used to be passed on, so an error could be written with a 1xx or 2xx status, which a
client takes for success, or with one `net/http` refuses). -/
def ownStatus (e : Err) : Nat :=
  match asHTTP e with
  | some s => if 400 ≤ s ∧ s ≤ 599 then s else 500
  | none => 500

/-- The status `MarshalError` chooses: the table's status for the code; for codes
without a row the error's own HTTP status when that is an error status, else 500. -/
def wireStatus (table : List (Bytes × Nat)) (e : Err) : Nat :=
  match tableStatus table (wireCode e) with
  | some s => s
  | none => ownStatus e

/-- What `MarshalError` puts on the wire: status and the single `WireError`.
`compact` is `encoding/json`'s compaction of the raw detail. -/
def marshal (table : List (Bytes × Nat)) (e : Err) : Nat × Wire :=
  (wireStatus table e,
    (wireCode e, trim S C (wireStatus table e) (wireCode e) (text S C e), (detailOf e).map compact))

def codeOfStd (name : String) : Bytes := strBytes name

/-- The standard error `makeError1` makes up for a HEAD response, by status. -/
def headStd (stdMsg : Bytes → Bytes) (st : Nat) : Option Wire :=
  let mk (c : String) : Option Wire := some (codeOfStd c, stdMsg (codeOfStd c), none)
  if st = 404 then mk "NAME_UNKNOWN"
  else if st = 401 then mk "UNAUTHORIZED"
  else if st = 403 then mk "DENIED"
  else if st = 429 then mk "TOOMANYREQUESTS"
  else if st = 400 then mk "UNSUPPORTED"
  else none

/-- `makeError` on the response `WriteError` produced (JSON content type, one
error in the body); for HEAD the body is invisible. -/
def unmarshal (stdMsg : Bytes → Bytes) (head : Bool) (r : Nat × Wire) : Err :=
  if head then
    match headStd stdMsg r.1 with
    | some w => .http r.1 (.wire w)
    | none => .httpNil r.1
  else .http r.1 (.wires r.2 [])

/-- One server-to-client hop. -/
def hop (table : List (Bytes × Nat)) (stdMsg : Bytes → Bytes) (head : Bool) (e : Err) : Err :=
  unmarshal stdMsg head (marshal S C compact table e)

def hops (table : List (Bytes × Nat)) (stdMsg : Bytes → Bytes) (head : Bool) : Nat → Err → Err
  | 0, e => e
  | n + 1, e => hops table stdMsg head n (hop S C compact table stdMsg head e)

end

/-- The error shapes the property quantifies over: a standard or custom-coded
registry error, or a plain Go error, under any number of `%w` wrappers and
HTTP-status wrappers. -/
inductive Shape : Err → Prop where
  | wire (w : Wire) : Shape (.wire w)
  | plain (m : Bytes) : Shape (.plain m)
  | http (st : Nat) {e : Err} : Shape e → Shape (.http st e)
  | wrapf (pre post : Bytes) {e : Err} : Shape e → Shape (.wrapf pre e post)

end OciModel.ErrCodec
