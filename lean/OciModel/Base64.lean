/-
Standard-alphabet base64 with `=` padding on byte lists, as Go's
`base64.StdEncoding` (`EncodeToString` / `DecodeString`).

`decode` mirrors `(*Encoding).Decode` + `decodeQuantum` for `StdEncoding`
(padding required, not strict):
* `\r` and `\n` are skipped wherever they occur (also between and after padding);
* any other byte outside the alphabet is an error, `=` is accepted only as the
  third/fourth character of the last quantum, and nothing but `\r`/`\n` may follow it;
* input that ends inside a quantum is an error (padding is required);
* the unused low bits of the last sextet before padding are NOT checked
  (`StdEncoding` is not strict), so e.g. `QQ==` and `QR==` both decode to `A`.

Core Lean only (linked into the `ocimodel` driver).
-/
import OciModel.Base
namespace OciModel.Base64

/-- The alphabet: sextet value (`< 64`) to ASCII code. -/
def chN (n : Nat) : Nat :=
  if n < 26 then 65 + n
  else if n < 52 then 71 + n      -- 'a' = 97 = 71 + 26
  else if n < 62 then n - 4       -- '0' = 48 = 52 - 4
  else if n = 62 then 43          -- '+'
  else 47                         -- '/'

def ch (n : Nat) : UInt8 := UInt8.ofNat (chN n)

/-- Go's `decodeMap`: ASCII code to sextet, `none` for bytes outside the alphabet. -/
def sextetN (c : Nat) : Option Nat :=
  if 65 ≤ c ∧ c ≤ 90 then some (c - 65)
  else if 97 ≤ c ∧ c ≤ 122 then some (c - 71)
  else if 48 ≤ c ∧ c ≤ 57 then some (c + 4)
  else if c = 43 then some 62
  else if c = 47 then some 63
  else none

def sextet (c : UInt8) : Option Nat := sextetN c.toNat

def pad : UInt8 := 61

def isNL (c : UInt8) : Bool := c == 10 || c == 13

/-- `EncodeToString`. -/
def encode : Bytes → Bytes
  | [] => []
  | [a] => [ch (a.toNat / 4), ch (a.toNat % 4 * 16), pad, pad]
  | [a, b] => [ch (a.toNat / 4), ch (a.toNat % 4 * 16 + b.toNat / 16), ch (b.toNat % 16 * 4), pad]
  | a :: b :: c :: rest =>
    ch (a.toNat / 4) :: ch (a.toNat % 4 * 16 + b.toNat / 16) ::
      ch (b.toNat % 16 * 4 + c.toNat / 64) :: ch (c.toNat % 64) :: encode rest

/-- Bytes of a quantum from its sextets. -/
def byte0 (s0 s1 : Nat) : UInt8 := UInt8.ofNat (s0 * 4 + s1 / 16)
def byte1 (s1 s2 : Nat) : UInt8 := UInt8.ofNat (s1 % 16 * 16 + s2 / 4)
def byte2 (s2 s3 : Nat) : UInt8 := UInt8.ofNat (s2 % 4 * 64 + s3)

/-- The decoder loop: `q` holds the sextets of the current quantum read so far
(at most three). -/
def decodeAux : Bytes → List Nat → Option Bytes
  | [], [] => some []
  | [], _ :: _ => none                       -- input ends inside a quantum
  | c :: rest, q =>
    match sextet c with
    | some v =>
      match q with
      | [s0, s1, s2] =>
        match decodeAux rest [] with
        | some out => some (byte0 s0 s1 :: byte1 s1 s2 :: byte2 s2 v :: out)
        | none => none
      | _ => decodeAux rest (q ++ [v])
    | none =>
      if isNL c then decodeAux rest q
      else if c == pad then
        match q with
        | [s0, s1] =>
          -- "==" expected: skip newlines, one more '=', then only newlines
          match rest.dropWhile isNL with
          | c' :: rest' => if c' == pad && rest'.all isNL then some [byte0 s0 s1] else none
          | [] => none
        | [s0, s1, s2] =>
          if rest.all isNL then some [byte0 s0 s1, byte1 s1 s2] else none
        | _ => none
      else none

/-- `DecodeString`; `none` stands for any `CorruptInputError`. -/
def decode (s : Bytes) : Option Bytes := decodeAux s []

/-! ### Round trip -/

theorem sextetN_chN : ∀ n, n < 64 → sextetN (chN n) = some n := by decide

theorem chN_lt : ∀ n, n < 64 → chN n < 256 := by decide

theorem chN_ne : ∀ n, n < 64 → chN n ≠ 61 ∧ chN n ≠ 10 ∧ chN n ≠ 13 := by decide

theorem ch_toNat {n : Nat} (h : n < 64) : (ch n).toNat = chN n := by
  have := chN_lt n h
  simp [ch, UInt8.toNat_ofNat']
  omega

theorem sextet_ch {n : Nat} (h : n < 64) : sextet (ch n) = some n := by
  simp [sextet, ch_toNat h, sextetN_chN n h]

theorem sextet_pad : sextet pad = none := by decide

theorem isNL_pad : isNL pad = false := by decide

theorem byte0_eq (a b : UInt8) : byte0 (a.toNat / 4) (a.toNat % 4 * 16 + b.toNat / 16) = a := by
  have ha := a.toNat_lt
  have hb := b.toNat_lt
  have : a.toNat / 4 * 4 + (a.toNat % 4 * 16 + b.toNat / 16) / 16 = a.toNat := by omega
  unfold byte0; rw [this]; exact UInt8.ofNat_toNat

theorem byte0_eq' (a : UInt8) : byte0 (a.toNat / 4) (a.toNat % 4 * 16) = a := by
  have ha := a.toNat_lt
  have : a.toNat / 4 * 4 + (a.toNat % 4 * 16) / 16 = a.toNat := by omega
  unfold byte0; rw [this]; exact UInt8.ofNat_toNat

theorem byte1_eq (a b c : UInt8) :
    byte1 (a.toNat % 4 * 16 + b.toNat / 16) (b.toNat % 16 * 4 + c.toNat / 64) = b := by
  have ha := a.toNat_lt
  have hb := b.toNat_lt
  have hc := c.toNat_lt
  have : (a.toNat % 4 * 16 + b.toNat / 16) % 16 * 16 + (b.toNat % 16 * 4 + c.toNat / 64) / 4
      = b.toNat := by omega
  unfold byte1; rw [this]; exact UInt8.ofNat_toNat

theorem byte1_eq' (a b : UInt8) :
    byte1 (a.toNat % 4 * 16 + b.toNat / 16) (b.toNat % 16 * 4) = b := by
  have ha := a.toNat_lt
  have hb := b.toNat_lt
  have : (a.toNat % 4 * 16 + b.toNat / 16) % 16 * 16 + (b.toNat % 16 * 4) / 4 = b.toNat := by omega
  unfold byte1; rw [this]; exact UInt8.ofNat_toNat

theorem byte2_eq (b c : UInt8) : byte2 (b.toNat % 16 * 4 + c.toNat / 64) (c.toNat % 64) = c := by
  have hb := b.toNat_lt
  have hc := c.toNat_lt
  have : (b.toNat % 16 * 4 + c.toNat / 64) % 4 * 64 + c.toNat % 64 = c.toNat := by omega
  unfold byte2; rw [this]; exact UInt8.ofNat_toNat

/-- Decoding what `encode` produced gives the bytes back, for every byte string. -/
theorem decode_encode (b : Bytes) : decode (encode b) = some b := by
  unfold decode
  fun_induction encode b with
  | case1 => simp [decodeAux]
  | case2 a =>
    have ha := a.toNat_lt
    have h0 : a.toNat / 4 < 64 := by omega
    have h1 : a.toNat % 4 * 16 < 64 := by omega
    simp [decodeAux, sextet_ch h0, sextet_ch h1, sextet_pad, isNL_pad, byte0_eq']
  | case3 a b =>
    have ha := a.toNat_lt
    have hb := b.toNat_lt
    have h0 : a.toNat / 4 < 64 := by omega
    have h1 : a.toNat % 4 * 16 + b.toNat / 16 < 64 := by omega
    have h2 : b.toNat % 16 * 4 < 64 := by omega
    simp [decodeAux, sextet_ch h0, sextet_ch h1, sextet_ch h2, sextet_pad, isNL_pad, byte0_eq,
      byte1_eq']
  | case4 a b c rest ih =>
    have ha := a.toNat_lt
    have hb := b.toNat_lt
    have hc := c.toNat_lt
    have h0 : a.toNat / 4 < 64 := by omega
    have h1 : a.toNat % 4 * 16 + b.toNat / 16 < 64 := by omega
    have h2 : b.toNat % 16 * 4 + c.toNat / 64 < 64 := by omega
    have h3 : c.toNat % 64 < 64 := by omega
    simp [decodeAux, sextet_ch h0, sextet_ch h1, sextet_ch h2, sextet_ch h3, ih, byte0_eq, byte1_eq,
      byte2_eq]

end OciModel.Base64
