/-
Model of the in-memory registry `ocimem` (registry.go, reader.go, writer.go,
blob.go, deleter.go, lister.go, desciter.go) as a sequential state machine.

Parameters: the hash `H : Bytes → Bytes` (`digest.FromBytes`, i.e. the text
`sha256:<hex>`); no theorem assumes anything about it. JSON decoding of manifests
is done by the harness with the same `json.Unmarshal` the code uses and arrives
as `Decoded` (one exception, F42: where `refersTo` reads stored bytes as a media type
they were NOT pushed with, nobody decoded them at the push, and the model's own decoder
`ManifestDecode.decodeRefs` — checked against the Go decoder by C02J — is used: `refsAs`).
Maps are association lists with unique keys (`AssocList`); Go map
iteration order never matters because every listing sorts.

Error classes are OCI codes, or `ERR` for the un-coded errors ocimem returns.
-/
import OciModel.Base
import OciModel.Ref
import OciModel.MemData
import OciModel.ManifestDecode

namespace OciModel.Mem

/-! ### Association lists -/

def alookup {β} (k : Bytes) : List (Bytes × β) → Option β
  | [] => none
  | (k', v) :: rest => if k' = k then some v else alookup k rest

def aerase {β} (k : Bytes) : List (Bytes × β) → List (Bytes × β)
  | [] => []
  | (k', v) :: rest => if k' = k then aerase k rest else (k', v) :: aerase k rest

def ainsert {β} (k : Bytes) (v : β) (m : List (Bytes × β)) : List (Bytes × β) := (k, v) :: aerase k m

/-! ### Data (`Desc`, `RefInfo`, `Decoded`: see `MemData.lean`) -/

structure Blob where
  mediaType : Bytes
  data      : Bytes
  subject   : Bytes
  refs      : List RefInfo        -- references of the stored bytes under the stored media type
  deriving DecidableEq, Repr

structure Buffer where
  buf        : Bytes
  checkStart : Int
  committed  : Bool
  commitErr  : Option String      -- error class of the sticky commit error
  deriving DecidableEq, Repr

structure Repo where
  tags      : List (Bytes × Desc)
  manifests : List (Bytes × Blob)
  blobs     : List (Bytes × Blob)
  uploads   : List (Bytes × Buffer)
  deriving DecidableEq, Repr

structure State where
  immutableTags : Bool
  repos  : List (Bytes × Repo)
  nextID : Nat                    -- fresh upload IDs are `@<n>`; Go draws 32 random bytes
  deriving DecidableEq, Repr

def emptyRepo : Repo := ⟨[], [], [], []⟩
def init (immutable : Bool) : State := ⟨immutable, [], 0⟩

def octetStream : Bytes := strBytes "application/octet-stream"

inductive Out where
  | err (cls : String)
  | okDesc (d : Desc)
  | okRead (d : Desc) (data : Bytes)
  | okList (items : List Bytes)
  | okDescs (items : List Desc)
  | okWriter (id : Bytes)
  | okN (n : Int)
  | okUnit
  deriving DecidableEq, Repr

section
variable (H : Bytes → Bytes)

def descOf (b : Blob) : Desc := ⟨b.mediaType, H b.data, b.data.length⟩

/-- `SHA256("")` as go-digest prints it; `CheckDescriptor` compares against the constant. -/
def emptyHash : Bytes := strBytes "sha256:e3b0c44298fc1c149afbf4c8996fb92427ae41e4649b934ca495991b7852b855"

/-- `CheckDescriptor(desc, data)` with `data != nil`: `none` = fine, else the
error class (`DIGEST_INVALID`, `SIZE_INVALID`, or un-coded). -/
def checkDescData (d : Desc) (data : Bytes) : Option String :=
  if !Ref.isDigest d.digest then some "DIGEST_INVALID"
  else if H data != d.digest then some "DIGEST_INVALID"
  else if d.size != data.length then some "SIZE_INVALID"
  else if d.mediaType == [] then some "ERR"
  else none

/-- `CheckDescriptor(desc, nil)`. -/
def checkDescNil (d : Desc) : Bool :=
  Ref.isDigest d.digest && !(d.size == 0 && d.digest != emptyHash) && d.mediaType != []

def getRepo (s : State) (r : Bytes) : Option Repo := alookup r s.repos
def putRepo (s : State) (r : Bytes) (rp : Repo) : State := { s with repos := ainsert r rp s.repos }

/-- `makeRepo`: `none` is `ErrNameInvalid`. -/
def makeRepo (s : State) (r : Bytes) : Option (State × Repo) :=
  if !Ref.isRepo r then none
  else match getRepo s r with
    | some rp => some (s, rp)
    | none => some (putRepo s r emptyRepo, emptyRepo)

def blobFor (s : State) (r d : Bytes) : Except String Blob :=
  match getRepo s r with
  | none => .error "NAME_UNKNOWN"
  | some rp => match alookup d rp.blobs with
    | none => .error "BLOB_UNKNOWN"
    | some b => .ok b

def manifestFor (s : State) (r d : Bytes) : Except String Blob :=
  match getRepo s r with
  | none => .error "NAME_UNKNOWN"
  | some rp => match alookup d rp.manifests with
    | none => .error "MANIFEST_UNKNOWN"
    | some b => .ok b

/-- Insert into an ascending list (listings sort their keys). -/
def insertSorted (k : Bytes) : List Bytes → List Bytes
  | [] => [k]
  | x :: xs => if compare k x == .gt then x :: insertSorted k xs else k :: x :: xs

def sortBytes (l : List Bytes) : List Bytes := l.foldr insertSorted []

/-- `mapKeysIter`: keys strictly after `start`, ascending. -/
def keysAfter {β} (m : List (Bytes × β)) (start : Bytes) : List Bytes :=
  sortBytes ((m.map (·.1)).filter fun k => compare start k == .lt)

def insertDesc (d : Desc) : List Desc → List Desc
  | [] => [d]
  | x :: xs => if compare d.digest x.digest == .gt then x :: insertDesc d xs else d :: x :: xs

/-- `checkManifest`'s walk: every referenced descriptor must look sane, blobs and
manifests must exist, the subject may dangle. Returns the subject. -/
def checkRefs (rp : Repo) : List RefInfo → Bytes → Option Bytes
  | [], subj => some subj
  | r :: rest, subj =>
    if !checkDescNil r.desc then none
    else if r.kind = 0 then (if (alookup r.desc.digest rp.blobs).isSome then checkRefs rp rest subj else none)
    else if r.kind = 1 then (if (alookup r.desc.digest rp.manifests).isSome then checkRefs rp rest subj else none)
    else checkRefs rp rest r.desc.digest

/-- F42: what the stored bytes of `b` refer to when read as the media type `mt` a
referring descriptor declares for them, where that is not the media type they are
stored with (`manifestReferences(info.desc.MediaType, b.data)` in `refersTo`): the
same bytes may have been stored under another media type while no tag led to them.
Bytes that do not decode as `mt`, and media types ocimem cannot look inside, give
nothing. The decoder is the model's (`ManifestDecode.decodeRefs`, C02J), not a hint:
nobody decoded the bytes under `mt` when they were pushed. -/
def refsAs (b : Blob) (mt : Bytes) : List RefInfo :=
  if mt = b.mediaType then []
  else match ManifestDecode.decodeRefs mt b.data with
    | .refs rs => rs
    | _ => []

/-- `refersTo`: is `target` referred to, directly or through stored manifests, by
the given references? Fuel bounds the recursion depth (references to manifests
must pre-exist, so the real recursion is bounded by the number of manifests;
a cycle through dangling subjects would need a hash fixed point).
F42: a stored manifest is followed under the media type it is stored with (F15) and
also under the one the referring descriptor declares for it (`refsAs`). -/
def refersTo (rp : Repo) (target : Bytes) : Nat → List RefInfo → Bool
  | 0, _ => false
  | _, [] => false
  | fuel + 1, r :: rest =>
    if r.desc.digest = target then true
    else
      let inner :=
        if r.kind = 1 ∨ r.kind = 2 then
          match alookup r.desc.digest rp.manifests with
          | some b => refersTo rp target fuel b.refs || refersTo rp target fuel (refsAs b r.desc.mediaType)
          | none => false
        else false
      inner || refersTo rp target (fuel + 1) rest
termination_by fuel l => (fuel, l.length)

/-- `repoTagIter`: every tag as a manifest reference. -/
def tagRefs (rp : Repo) : List RefInfo := rp.tags.map fun (_, d) => ⟨1, d⟩

/-- F42: the fuel was `manifests.length + 2` when a stored manifest was followed under one
media type; it can now be followed under three (`MemImmutable.Reach.bounded`). -/
def taggedRefersTo (rp : Repo) (target : Bytes) : Bool :=
  refersTo rp target (3 * rp.manifests.length + 2) (tagRefs rp)

inductive Op where
  | getBlob (r d : Bytes)
  | getBlobRange (r d : Bytes) (o0 o1 : Int)
  | getManifest (r d : Bytes)
  | getTag (r t : Bytes)
  | resolveBlob (r d : Bytes)
  | resolveManifest (r d : Bytes)
  | resolveTag (r t : Bytes)
  | pushBlob (r : Bytes) (desc : Desc) (data : Bytes)
  | pushChunked (r : Bytes)
  | resume (r id : Bytes) (offset : Int)
  | wWrite (r id data : Bytes)
  | wSize (r id : Bytes)
  | wCancel (r id : Bytes)
  | wCommit (r id dig : Bytes)
  | mount (fromR toR d : Bytes)
  | pushManifest (r t data mt : Bytes) (dec : Decoded)
  | deleteBlob (r d : Bytes)
  | deleteManifest (r d : Bytes)
  | deleteTag (r t : Bytes)
  | repositories (start : Bytes)
  | tags (r start : Bytes)
  | referrers (r d : Bytes)
  deriving Repr

def freshID (n : Nat) : Bytes := 64 :: strBytes (toString n)

def getBuffer (s : State) (r id : Bytes) : Option (Repo × Buffer) :=
  match getRepo s r with
  | none => none
  | some rp => (alookup id rp.uploads).map fun b => (rp, b)

def putBuffer (s : State) (r : Bytes) (rp : Repo) (id : Bytes) (b : Buffer) : State :=
  putRepo s r { rp with uploads := ainsert id b rp.uploads }

def step (s : State) : Op → State × Out
  | .getBlob r d =>
    match blobFor s r d with
    | .error e => (s, .err e)
    | .ok b => (s, .okRead (descOf H b) b.data)
  | .getBlobRange r d o0 o1 =>
    match blobFor s r d with
    | .error e => (s, .err e)
    | .ok b =>
      let n : Int := b.data.length
      let o1' := if o1 < 0 ∨ o1 > n then n else o1
      if o0 < 0 ∨ o0 > o1' then (s, .err "ERR")
      else (s, .okRead (descOf H b) ((b.data.drop o0.toNat).take (o1' - o0).toNat))
  | .getManifest r d =>
    match manifestFor s r d with
    | .error e => (s, .err e)
    | .ok b => (s, .okRead (descOf H b) b.data)
  | .getTag r t =>
    match getRepo s r with
    | none => (s, .err "NAME_UNKNOWN")
    | some rp =>
      match alookup t rp.tags with
      | none => (s, .err "MANIFEST_UNKNOWN")
      | some d =>
        match alookup d.digest rp.manifests with
        | none => (s, .err "MANIFEST_UNKNOWN")
        | some b => (s, .okRead (descOf H b) b.data)
  | .resolveBlob r d =>
    match blobFor s r d with
    | .error e => (s, .err e)
    | .ok b => (s, .okDesc (descOf H b))
  | .resolveManifest r d =>
    match manifestFor s r d with
    | .error e => (s, .err e)
    | .ok b => (s, .okDesc (descOf H b))
  | .resolveTag r t =>
    match getRepo s r with
    | none => (s, .err "NAME_UNKNOWN")
    | some rp =>
      match alookup t rp.tags with
      | none => (s, .err "MANIFEST_UNKNOWN")
      | some d => (s, .okDesc d)
  | .pushBlob r desc data =>
    match checkDescData H desc data with
    | some e => (s, .err e)
    | none =>
      match makeRepo s r with
      | none => (s, .err "NAME_INVALID")
      | some (s1, rp) =>
        (putRepo s1 r { rp with blobs := ainsert desc.digest ⟨desc.mediaType, data, [], []⟩ rp.blobs }, .okDesc desc)
  | .pushChunked r =>
    match makeRepo s r with
    | none => (s, .err "NAME_INVALID")
    | some (s1, rp) =>
      let id := freshID s1.nextID
      ({ putBuffer s1 r rp id ⟨[], 0, false, none⟩ with nextID := s1.nextID + 1 }, .okWriter id)
  | .resume r id offset =>
    match makeRepo s r with
    | none => (s, .err "NAME_INVALID")
    | some (s1, rp) =>
      match alookup id rp.uploads with
      | some b => (putBuffer s1 r rp id { b with checkStart := offset }, .okWriter id)
      | none =>
        if id = [] then
          let id' := freshID s1.nextID
          ({ putBuffer s1 r rp id' ⟨[], offset, false, none⟩ with nextID := s1.nextID + 1 }, .okWriter id')
        else (putBuffer s1 r rp id ⟨[], offset, false, none⟩, .okWriter id)
  | .wWrite r id data =>
    match getBuffer s r id with
    | none => (s, .err "NO-WRITER")
    | some (rp, b) =>
      if b.checkStart ≠ -1 ∧ (b.buf.length : Int) ≠ b.checkStart then (s, .err "RANGE_INVALID")
      else (putBuffer s r rp id { b with buf := b.buf ++ data, checkStart := -1 }, .okN data.length)
  | .wSize r id =>
    match getBuffer s r id with
    | none => (s, .err "NO-WRITER")
    | some (_, b) => (s, .okN b.buf.length)
  | .wCancel r id =>
    match getBuffer s r id with
    | none => (s, .err "NO-WRITER")
    | some (rp, b) => (putBuffer s r rp id { b with commitErr := some "ERR" }, .okUnit)
  | .wCommit r id dig =>
    match getBuffer s r id with
    | none => (s, .err "NO-WRITER")
    | some (rp, b) =>
      match b.commitErr with
      | some e => (s, .err e)
      | none =>
        if H b.buf ≠ dig then (putBuffer s r rp id { b with commitErr := some "DIGEST_INVALID" }, .err "DIGEST_INVALID")
        else
          let rp1 := { rp with uploads := ainsert id { b with committed := true } rp.uploads,
                               blobs := ainsert dig ⟨octetStream, b.buf, [], []⟩ rp.blobs }
          (putRepo s r rp1, .okDesc ⟨octetStream, dig, b.buf.length⟩)
  | .mount fromR toR d =>
    match makeRepo s toR with
    | none => (s, .err "NAME_INVALID")
    | some (s1, _) =>
      match blobFor s1 fromR d with
      | .error e => (s1, .err e)
      | .ok b =>
        match getRepo s1 toR with
        | none => (s1, .err "NAME_UNKNOWN")      -- unreachable: makeRepo just created it
        | some rto => (putRepo s1 toR { rto with blobs := ainsert d b rto.blobs }, .okDesc (descOf H b))
  | .pushManifest r t data mt dec =>
    match makeRepo s r with
    | none => (s, .err "NAME_INVALID")
    | some (s1, rp) =>
      let dig := H data
      let desc : Desc := ⟨mt, dig, data.length⟩
      if t ≠ [] ∧ !Ref.isTag t then (s1, .err "ERR")
      else
        let existing := if t ≠ [] ∧ s1.immutableTags then alookup t rp.tags else none
        match existing with
        | some cur =>
          if cur.digest = dig then
            if cur.mediaType ≠ mt then (s1, .err "DENIED") else (s1, .okDesc cur)
          else (s1, .err "DENIED")
        | none =>
          -- immutable-tags mode: content reachable from a tag keeps the media type it was stored with
          let retyped : Bool := s1.immutableTags &&
            (match alookup dig rp.manifests with
             | some b => b.mediaType != mt && taggedRefersTo rp dig
             | none => false)
          if retyped then (s1, .err "DENIED")
          else if (checkDescData H desc data).isSome then (s1, .err "ERR")    -- wrapped with %v: un-coded
          else
            let refsOpt : Option (List RefInfo) := match dec with
              | .opaque => some []
              | .malformed => none
              | .refs rs => some rs
            match refsOpt with
            | none => (s1, .err "ERR")
            | some rs =>
              match checkRefs rp rs [] with
              | none => (s1, .err "ERR")
              | some subj =>
                let rp1 := { rp with manifests := ainsert dig ⟨mt, data, subj, rs⟩ rp.manifests }
                let rp2 := if t ≠ [] then { rp1 with tags := ainsert t desc rp1.tags } else rp1
                (putRepo s1 r rp2, .okDesc desc)
  | .deleteBlob r d =>
    match blobFor s r d with
    | .error e => (s, .err e)
    | .ok _ =>
      match getRepo s r with
      | none => (s, .okUnit)
      | some rp =>
        if s.immutableTags ∧ taggedRefersTo rp d then (s, .err "DENIED")
        else (putRepo s r { rp with blobs := aerase d rp.blobs }, .okUnit)
  | .deleteManifest r d =>
    match manifestFor s r d with
    | .error e => (s, .err e)
    | .ok _ =>
      match getRepo s r with
      | none => (s, .okUnit)
      | some rp =>
        if s.immutableTags ∧ taggedRefersTo rp d then (s, .err "DENIED")
        else (putRepo s r { rp with manifests := aerase d rp.manifests }, .okUnit)
  | .deleteTag r t =>
    match getRepo s r with
    | none => (s, .err "NAME_UNKNOWN")
    | some rp =>
      if (alookup t rp.tags).isNone then (s, .err "MANIFEST_UNKNOWN")
      else if s.immutableTags then (s, .err "DENIED")
      else (putRepo s r { rp with tags := aerase t rp.tags }, .okUnit)
  | .repositories start => (s, .okList (keysAfter s.repos start))
  | .tags r start =>
    match getRepo s r with
    | none => (s, .err "NAME_UNKNOWN")
    | some rp => (s, .okList (keysAfter rp.tags start))
  | .referrers r d =>
    match getRepo s r with
    | none => (s, .err "NAME_UNKNOWN")
    | some rp =>
      (s, .okDescs (((rp.manifests.filter fun (_, b) => b.subject = d).map fun (_, b) => descOf H b).foldr insertDesc []))

def run (s : State) : List Op → State × List Out
  | [] => (s, [])
  | op :: rest =>
    let (s1, o) := step H s op
    let (s2, os) := run s1 rest
    (s2, o :: os)

end

end OciModel.Mem
