/-
Model of `ociclient.blobWriter` (ociregistry/ociclient/writer.go) as a state machine
under faults: every method is a total function of the writer's state and of the
*answer the transport gives* to the (at most one) request the method makes.

* `Answer`  — what comes back for one request: status (0 = `RoundTrip` returned an error),
              and the raw values of the `Location`, `Range` and `OCI-Chunk-Min-Length`
              headers ("" = absent). Header parsing (`strconv.Atoi`, `ocirequest.ParseRange`)
              is part of the model; `net/url` (`url.Parse`, `URL.ResolveReference`,
              `url.QueryEscape`) is a parameter (`UrlEnv`).
* `W`       — the fields of `blobWriter` (writer.go:275-294).
* `Req`     — what is sent: method, URL, the two numbers of `Content-Range`, the body.
* `allocs`  — ghost output: the capacity asked of every `make([]byte, 0, n)` a call executes.

Offsets and sizes are unbounded integers, as in `ReqCodec.lean` / `Upload.lean`; the one `int64`
wrap-around that a registry can trigger with a single header (`ParseRange`'s `p1++` on
`Range: 0-9223372036854775807`) is followed (`succ64`). Sums that overflow an `int64` only after
2^63 bytes have been written are outside the model.

Line numbers refer to ociregistry/ociclient/writer.go unless a file is named.
The fault-free protocol with an idealised server is `OciModel/Upload.lean`; the refinement
between the two is `Props.C04W.flush_refines_upload` (and `write_…`, `commit_…`).
Core Lean only (this file is linked into the `ocimodel` driver).
-/
import OciModel.Base
import OciModel.ReqCodec

namespace OciModel.ClientWriter
open OciModel OciModel.ReqCodec

/-! ## URLs, answers, requests -/

/-- A `*url.URL` as far as the writer looks at it: `urlWithDigest` reads and writes `RawQuery`
and `ForceQuery`; everything else is carried along. `host = ""` stands for the client's own
registry (`client.do` fills scheme and host in, client.go:282-287). -/
structure Loc where
  host       : Bytes := []
  path       : Bytes := []
  rawQuery   : Bytes := []
  forceQuery : Bool := false
  deriving DecidableEq, Repr

/-- `net/url` as the writer uses it. -/
structure UrlEnv where
  /-- `url.Parse(hdr)` then `resp.Request.URL.ResolveReference(·)` (client.go:348-352);
  `none` = `url.Parse` failed. The first argument is the URL of the request. -/
  resolve : Loc → Bytes → Option Loc
  /-- `url.Parse(id)` (:245, and `http.NewRequestWithContext(ctx, "GET", id, nil)` :216): the URL
  and whether its `Path` starts with "/" (:249); `none` = parse error. -/
  parseID : Bytes → Option (Loc × Bool)
  /-- `url.QueryEscape` (:435) -/
  qesc    : Bytes → Bytes

/-- The answer of the transport to one request. -/
structure Answer where
  status   : Nat            -- 0: `httpClient.Do` returned an error (client.go:305-308)
  location : Bytes := []    -- `Location` ("" = absent)
  range    : Bytes := []    -- `Range`
  chunkMin : Bytes := []    -- `OCI-Chunk-Min-Length`
  deriving DecidableEq, Repr

inductive Method where
  | post | get | patch | put
  deriving DecidableEq, Repr

structure Req where
  method       : Method
  url          : Loc
  contentRange : Option (Int × Int)   -- the two numbers `RangeString` prints; `none`: no such header
  body         : Bytes
  deriving DecidableEq, Repr

inductive WErr where
  | transport                       -- "cannot do HTTP request" (client.go:307)
  | http (status : Nat)             -- `makeError(resp)`: an `HTTPError` with this status (client.go:333-335)
  | unexpectedStatus (status : Nat) -- a 2xx that is not the expected one (client.go:336)
  | noLocation | badLocation        -- `locationFromResponse` (client.go:343-351)
  | badRange | rangeNotZero         -- :233-238
  | emptyID                         -- :193-195
  | badOffset                       -- :241-242
  | badID | relativeID              -- :246-248, :249-256
  | emptyDigest                     -- :409-411
  deriving DecidableEq, Repr

/-! ## Header parsing -/

def maxI64 : Int := 9223372036854775807
def minI64 : Int := -9223372036854775808

/-- `p1++` on an `int64` (internal/ocirequest/request.go:548-550) -/
def succ64 (i : Int) : Int := if i = maxI64 then minI64 else i + 1

/-- `strings.Cut(s, "-")` -/
def cutDash (s : Bytes) : Option (Bytes × Bytes) :=
  match s.dropWhile (· != 45) with
  | [] => none
  | _ :: after => some (s.takeWhile (· != 45), after)

/-- `ocirequest.ParseRange` on text (internal/ocirequest/request.go:535-552); `none` = `ok` is false. -/
def parseRangeHdr (s : Bytes) : Option (Int × Int) :=
  match cutDash s with
  | none => none
  | some (a, b) =>
    match atoi a, atoi b with
    | some p0, some p1 => some (p0, if p1 > 0 ∨ p0 > 0 then succ64 p1 else p1)
    | _, _ => none

def defaultChunkSize : Int := 65536                                    -- :158

/-- `chunkSizeFromResponse` (:451-457) -/
def chunkSizeFromResponse (a : Answer) (chunkSize : Int) : Int :=
  match atoi a.chunkMin with
  | some m => if m > chunkSize then m else chunkSize
  | none => chunkSize

/-- `client.do(req, expect)` (client.go:281-337) as far as the status goes; `none` = the response is handed on. -/
def gate (expect : Nat) (a : Answer) : Option WErr :=
  if a.status = 0 then some .transport                                  -- client.go:305-308
  else if a.status = expect then none                                   -- client.go:327-331
  else if a.status / 100 ≠ 2 then some (.http a.status)                 -- client.go:333-335
  else some (.unexpectedStatus a.status)                                -- client.go:336

/-- `locationFromResponse` (client.go:343-353) -/
def locationFromResponse (env : UrlEnv) (reqURL : Loc) (a : Answer) : Except WErr Loc :=
  if a.location = [] then .error .noLocation
  else match env.resolve reqURL a.location with
    | none => .error .badLocation
    | some u => .ok u

/-- `urlWithDigest` (:433-448) -/
def urlWithDigest (env : UrlEnv) (u : Loc) (digest : Bytes) : Loc :=
  let d := env.qesc digest
  if u.forceQuery then { u with rawQuery := strBytes "digest=" ++ d, forceQuery := false }   -- :437-440
  else if u.rawQuery ≠ [] then { u with rawQuery := u.rawQuery ++ strBytes "&digest=" ++ d } -- :441-443
  else { u with rawQuery := strBytes "digest=" ++ d }                                        -- :444-445

/-- `concatBody` (:364-378): what the reader it returns yields. -/
def concatBody (b1 b2 : Bytes) : Bytes :=
  if b1.length + b2.length = 0 then []          -- :365-367 (a nil body)
  else if b1.length = 0 then b2                 -- :368-370
  else if b2.length = 0 then b1                 -- :371-373
  else b1 ++ b2                                 -- :374-377 `io.MultiReader(b1, b2)`

/-! ## The writer -/

/-- `blobWriter` (:275-294). `allocated` is `w.chunk != nil`. -/
structure W where
  chunkSize : Int
  closed    : Bool := false
  chunk     : Bytes := []
  allocated : Bool := false
  closeErr  : Option WErr := none
  size      : Int := 0
  flushed   : Int := 0
  location  : Loc
  deriving DecidableEq, Repr

/-- result of a call: what it returns, the writer afterwards, what was sent, what was allocated -/
structure Res (α : Type) where
  out    : Except WErr α
  w      : W
  reqs   : List Req := []
  allocs : List Int := []

/-- The request `flush(buf, commitDigest)` makes, if any (:325-347). It depends on the writer
and the arguments only. `commit = []` is the empty digest (a PATCH). -/
def flushReq (env : UrlEnv) (w : W) (buf commit : Bytes) : Option Req :=
  if commit = [] ∧ buf.length + w.chunk.length = 0 then none            -- :325-327
  else some
    { method := if commit = [] then .patch else .put                    -- :329, :335
      url := if commit = [] then w.location else urlWithDigest env w.location commit   -- :331, :337
      contentRange :=                                                   -- :344, :347
        some (rangeString w.flushed (w.flushed + ((w.chunk.length + buf.length : Nat) : Int)))
      body := concatBody w.chunk buf }                                  -- :339

/-- `flush` (:324-362). On any failure the writer is returned as it was. -/
def flush (env : UrlEnv) (w : W) (buf commit : Bytes) (a : Answer) : Except WErr W × List Req :=
  match flushReq env w buf commit with
  | none => (.ok w, [])
  | some r =>
    match gate (if commit = [] then 202 else 201) a with                -- :330, :336, :348
    | some e => (.error e, [r])                                         -- :349-351
    | none =>
      match locationFromResponse env r.url a with                       -- :353
      | .error e => (.error e, [r])                                     -- :354-356
      | .ok loc =>
        (.ok { w with location := loc                                   -- :358
                      flushed := w.flushed + ((w.chunk.length + buf.length : Nat) : Int)   -- :359
                      chunk := [] }, [r])                               -- :360

/-- `Write` (:296-319); it does not look at `closed`. -/
def write (env : UrlEnv) (w : W) (buf : Bytes) (a : Answer) : Res Nat :=
  if ((w.chunk.length + buf.length : Nat) : Int) > w.chunkSize then     -- :304
    match flush env w buf [] a with                                     -- :305
    | (.error e, reqs) => { out := .error e, w := w, reqs := reqs }     -- :306
    | (.ok w1, reqs) =>
      { out := .ok buf.length, w := { w1 with size := w1.size + (buf.length : Int) }, reqs := reqs }   -- :317-318
  else
    let allocs := if w.allocated then [] else [min w.chunkSize defaultChunkSize]      -- :309-314
    { out := .ok buf.length
      w := { w with allocated := true, chunk := w.chunk ++ buf,         -- :315
                    size := w.size + (buf.length : Int) }               -- :317
      allocs := allocs }

/-- what a closed writer answers to `Close` (:384) -/
def closedResult (w : W) : Except WErr Unit :=
  match w.closeErr with
  | none => .ok ()
  | some e => .error e

/-- `Close` (:380-390) -/
def close (env : UrlEnv) (w : W) (a : Answer) : Res Unit :=
  if w.closed then { out := closedResult w, w := w }                    -- :383-385
  else
    match flush env w [] [] a with                                      -- :386
    | (.error e, reqs) => { out := .error e, w := { w with closed := true, closeErr := some e }, reqs := reqs }
    | (.ok w1, reqs) => { out := .ok (), w := { w1 with closed := true, closeErr := none }, reqs := reqs }

/-- `Commit` (:408-422): the size of the returned descriptor (its digest is the argument). -/
def commit (env : UrlEnv) (w : W) (digest : Bytes) (a : Answer) : Res Int :=
  if digest = [] then { out := .error .emptyDigest, w := w }            -- :409-411
  else
    match flush env w [] digest a with                                  -- :414
    | (.error e, reqs) => { out := .error e, w := w, reqs := reqs }     -- :415 (wrapped with %w)
    | (.ok w1, reqs) => { out := .ok w1.size, w := w1, reqs := reqs }   -- :417-421

/-- `Cancel` (:424-426) -/
def cancel (w : W) : Res Unit := { out := .ok (), w := w }

/-- `PushBlobChunked` (:160-190). `startURL` is the URL of `POST /v2/<repo>/blobs/uploads/`. -/
def start (env : UrlEnv) (startURL : Loc) (hint : Int) (a : Answer) : Except WErr W × List Req × List Int :=
  let chunkSize := if hint ≤ 0 then defaultChunkSize else hint          -- :161-163
  let r : Req := { method := .post, url := startURL, contentRange := none, body := [] }
  match gate 202 a with                                                 -- :164-170
  | some e => (.error e, [r], [])
  | none =>
    match locationFromResponse env startURL a with                      -- :172-175
    | .error e => (.error e, [r], [])
    | .ok loc =>
      (.ok { chunkSize := chunkSizeFromResponse a chunkSize             -- :186
             chunk := [], allocated := true                             -- `make([]byte, 0, min(chunkSize, defaultChunkSize))` (fix F38)
             location := loc }, [r], [min chunkSize defaultChunkSize])

/-- `PushBlobChunkedResume` (:192-273) -/
def resume (env : UrlEnv) (id : Bytes) (offset hint : Int) (a : Answer) : Except WErr W × List Req :=
  if id = [] then (.error .emptyID, [])                                 -- :193-195
  else
    let chunkSize := if hint ≤ 0 then defaultChunkSize else hint        -- :196-198
    if offset = -1 then                                                 -- :201
      match env.parseID id with                                         -- :216-219
      | none => (.error .badID, [])
      | some (u, _) =>
        let r : Req := { method := .get, url := u, contentRange := none, body := [] }
        match gate 204 a with                                           -- :220-226
        | some e => (.error e, [r])
        | none =>
          match locationFromResponse env u a with                       -- :227-230
          | .error e => (.error e, [r])
          | .ok loc =>
            match parseRangeHdr a.range with                            -- :231-235
            | none => (.error .badRange, [r])
            | some (p0, p1) =>
              if p0 ≠ 0 then (.error .rangeNotZero, [r])                -- :236-238
              else (.ok { chunkSize := chunkSizeFromResponse a chunkSize    -- :239
                          size := p1, flushed := p1, location := loc }, [r])   -- :240, :265-272
    else if offset < 0 then (.error .badOffset, [])                     -- :241-242
    else
      match env.parseID id with                                         -- :245
      | none => (.error .badID, [])                                     -- :246-248
      | some (u, abs) =>
        if !abs then (.error .relativeID, [])                           -- :249-256
        else (.ok { chunkSize := chunkSize, size := offset, flushed := offset, location := u }, [])   -- :265-272

/-! ## Scripts: a writer driven by calls, each with the answer to its request -/

inductive Call where
  | write (buf : Bytes)
  | commit (digest : Bytes)
  | close
  | cancel
  deriving DecidableEq, Repr

/-- what a caller (and the transport) observes of one call -/
structure Obs where
  result : Except WErr Int      -- Write: n; Commit: the descriptor's size; Close, Cancel: 0
  reqs   : List Req
  allocs : List Int

/-- the result of a call as an integer (Write: n; Commit: the descriptor's size; otherwise 0) -/
def mapOut {α : Type} (f : α → Int) : Except WErr α → Except WErr Int
  | .ok x => .ok (f x)
  | .error e => .error e

def step (env : UrlEnv) (w : W) (c : Call) (a : Answer) : W × Obs :=
  match c with
  | .write buf => let r := write env w buf a; (r.w, ⟨mapOut (fun (n : Nat) => (n : Int)) r.out, r.reqs, r.allocs⟩)
  | .commit d => let r := commit env w d a; (r.w, ⟨r.out, r.reqs, r.allocs⟩)
  | .close => let r := close env w a; (r.w, ⟨mapOut (fun (_ : Unit) => 0) r.out, r.reqs, r.allocs⟩)
  | .cancel => let r := cancel w; (r.w, ⟨mapOut (fun (_ : Unit) => 0) r.out, r.reqs, r.allocs⟩)

/-- The server acknowledged the request: the status is the one the protocol prescribes for
the method and the answer names the next location. Defined on the answer alone. -/
def acks (env : UrlEnv) (r : Req) (a : Answer) : Bool :=
  (match r.method with
   | .patch => a.status == 202
   | .put => a.status == 201
   | _ => false) &&
  a.location != [] && (env.resolve r.url a.location).isSome

/-- Ghost account kept beside the writer: the bodies of acknowledged requests and the
arguments of the Writes that returned success, both in order. -/
structure Ghost where
  acked    : Bytes := []
  accepted : Bytes := []
  deriving DecidableEq, Repr

/-- the bytes of the requests that the answer acknowledges -/
def ackOf (env : UrlEnv) (a : Answer) : List Req → Bytes
  | [] => []
  | r :: rest => (if acks env r a then r.body else []) ++ ackOf env a rest

/-- the bytes a successful Write accepted -/
def accOf : Call → Except WErr Int → Bytes
  | .write buf, .ok _ => buf
  | _, _ => []

def stepG (env : UrlEnv) (w : W) (g : Ghost) (c : Call) (a : Answer) : W × Ghost × Obs :=
  let wo := step env w c a
  (wo.1, { acked := g.acked ++ ackOf env a wo.2.reqs, accepted := g.accepted ++ accOf c wo.2.result }, wo.2)

def runG (env : UrlEnv) (w : W) (g : Ghost) : List (Call × Answer) → W × Ghost × List Obs
  | [] => (w, g, [])
  | (c, a) :: rest =>
    let (w1, g1, o) := stepG env w g c a
    let (w2, g2, os) := runG env w1 g1 rest
    (w2, g2, o :: os)

end OciModel.ClientWriter
