/-
Base definitions shared by every model: byte strings, hex codec for the line
protocol, outcomes with explicit Go panics.
Core Lean only (this file is linked into the `ocimodel` driver).
-/
namespace OciModel

abbrev Bytes := List UInt8

/-- Result of a modelled Go call: Go panics are explicit so that "never panics"
is a real statement about the model. -/
inductive Outcome (α : Type) where
  | ok    : α → Outcome α
  | err   : String → Outcome α      -- canonical error class (OCI code or a fixed tag)
  | panic : String → Outcome α      -- site of the Go panic
  deriving Repr, DecidableEq

namespace Hex

def digit (n : Nat) : Char :=
  if n < 10 then Char.ofNat (48 + n) else Char.ofNat (87 + n)

def encode (b : Bytes) : String :=
  String.ofList (b.flatMap fun c => [digit (c.toNat / 16), digit (c.toNat % 16)])

def val (c : Char) : Option Nat :=
  if '0' ≤ c ∧ c ≤ '9' then some (c.toNat - 48)
  else if 'a' ≤ c ∧ c ≤ 'f' then some (c.toNat - 87)
  else none

def decodeChars : List Char → Option Bytes
  | [] => some []
  | [_] => none
  | a :: b :: rest => do
    let x ← val a
    let y ← val b
    let r ← decodeChars rest
    pure (UInt8.ofNat (x * 16 + y) :: r)

/-- Tokens are hex strings prefixed with `x` so the empty string is a token. -/
def decodeTok (s : String) : Option Bytes :=
  match s.toList with
  | 'x' :: cs => decodeChars cs
  | _ => none

def encodeTok (b : Bytes) : String := "x" ++ encode b

end Hex

def strBytes (s : String) : Bytes := s.toUTF8.data.toList

/-- Render bytes as text when they are printable ASCII, for driver output of
identifiers; otherwise hex. -/
def showBytes (b : Bytes) : String := Hex.encodeTok b

end OciModel
