/-
Concurrent view of the in-memory registry: executions are interleavings of ATOMIC steps.

The generated lock facts (`Props/C08.lean`: `registry_methods_atomic`, `lockset_ok`) say that
every exported `*Registry` method is one critical section of the registry mutex; such a call is
the atomic step `AStep.op`, whose effect is `Mem.step`. The one exception is `Buffer.Commit`,
which is two critical sections:
  * `commitCheck` — under the buffer lock: refuse if the session is poisoned, compare the
    digest of the buffered bytes, take a SNAPSHOT of them (`committedBuf`), mark committed;
  * `commitStore` — the commit callback, under the registry lock: store the snapshot as a blob.
Any other atomic steps (in particular writes to the same upload session) may come between.
That a Go execution *is* such an interleaving rests on `sync.Mutex` and on the extractor
having seen every shared access (trusted; the race detector run supports it).
-/
import OciModel.Mem

namespace OciModel.MemConc
open OciModel OciModel.Mem

inductive AStep where
  | op (o : Op)
  | commitCheck (r id dig : Bytes)
  | commitStore (r id : Bytes)
  deriving Repr

/-- pending commits: `(repo, id) ↦ (digest, snapshot)` -/
abbrev Snaps := List ((Bytes × Bytes) × (Bytes × Bytes))

structure CState where
  st    : State
  snaps : Snaps
  deriving Repr

def lookupSnap (k : Bytes × Bytes) : Snaps → Option (Bytes × Bytes)
  | [] => none
  | (k', v) :: rest => if k' = k then some v else lookupSnap k rest

def eraseSnap (k : Bytes × Bytes) : Snaps → Snaps
  | [] => []
  | (k', v) :: rest => if k' = k then eraseSnap k rest else (k', v) :: eraseSnap k rest

section
variable (H : Bytes → Bytes)

def astep (c : CState) : AStep → CState × Out
  | .op o =>
    let (s', out) := step H c.st o
    ({ c with st := s' }, out)
  | .commitCheck r id dig =>
    match getBuffer c.st r id with
    | none => (c, .err "NO-WRITER")
    | some (rp, b) =>
      match b.commitErr with
      | some e => (c, .err e)
      | none =>
        if H b.buf ≠ dig then
          ({ c with st := putBuffer c.st r rp id { b with commitErr := some "DIGEST_INVALID" } }, .err "DIGEST_INVALID")
        else
          ({ st := putBuffer c.st r rp id { b with committed := true },
             snaps := ((r, id), (dig, b.buf)) :: eraseSnap (r, id) c.snaps }, .okUnit)
  | .commitStore r id =>
    match lookupSnap (r, id) c.snaps with
    | none => (c, .err "NOT-CHECKED")
    | some (dig, data) =>
      match getRepo c.st r with
      | none => (c, .err "NAME_UNKNOWN")     -- unreachable: repositories are never removed
      | some rp =>
        ({ st := putRepo c.st r { rp with blobs := ainsert dig ⟨octetStream, data, [], []⟩ rp.blobs },
           snaps := eraseSnap (r, id) c.snaps }, .okDesc ⟨octetStream, dig, data.length⟩)

def arun (c : CState) : List AStep → CState
  | [] => c
  | a :: rest => arun (astep H c a).1 rest

/-- every pending snapshot hashes to the digest it will be stored under -/
def SnapsOk (sn : Snaps) : Prop := ∀ k dig data, lookupSnap k sn = some (dig, data) → H data = dig

end

/-! ### Linearization from atomic steps -/

/-- A concurrent execution as a trace of events: invocation, the atomic step, response of
operation `id`. -/
inductive Ev where
  | inv (id : Nat)
  | step (id : Nat)
  | ret (id : Nat)
  deriving DecidableEq, Repr

/-- position of the first occurrence of an event -/
def pos (e : Ev) : List Ev → Option Nat
  | [] => none
  | x :: xs => if x = e then some 0 else (pos e xs).map (· + 1)

/-- Every operation's atomic step lies between its invocation and its response. -/
def WellFormed (tr : List Ev) (ids : List Nat) : Prop :=
  ∀ id ∈ ids, ∃ i s r, pos (.inv id) tr = some i ∧ pos (.step id) tr = some s ∧ pos (.ret id) tr = some r ∧ i < s ∧ s < r

end OciModel.MemConc
