/-
Concurrent view of the in-memory registry: executions are interleavings of ATOMIC steps.

The generated lock facts (`Props/C08.lean`: `registry_methods_atomic`, `lockset_ok`) say that
every exported `*Registry` method is one critical section of the registry mutex; such a call is
the atomic step `AStep.op`, whose effect is `Mem.step`. The one exception is `Buffer.Commit`,
which is two critical sections:
  * `commitCheck` — under the buffer lock: refuse if the session is poisoned, compare the
    digest of the buffered bytes, take a SNAPSHOT of them (`committedBuf`), mark committed;
  * `commitStore` — the commit callback, under the registry lock: store the snapshot as a blob.
Any other atomic steps (in particular writes to the same upload session) may come between —
except, since fix F33, the steps of another `Commit` or of a `Cancel` of the same session, which
`Buffer.commitMu` keeps out: see `CommitSerial` below. `astep` itself knows nothing of that lock.
That a Go execution *is* such an interleaving rests on `sync.Mutex` and on the extractor
having seen every shared access (trusted; the race detector run supports it).
-/
import OciModel.Mem

namespace OciModel.MemConc
open OciModel OciModel.Mem

inductive AStep where
  | op (o : Op)
  | commitCheck (r id dig : Bytes)
  | commitStore (r id : Bytes)
  deriving Repr

/-- pending commits: `(repo, id) ↦ (digest, snapshot)` -/
abbrev Snaps := List ((Bytes × Bytes) × (Bytes × Bytes))

structure CState where
  st    : State
  snaps : Snaps
  deriving Repr

def lookupSnap (k : Bytes × Bytes) : Snaps → Option (Bytes × Bytes)
  | [] => none
  | (k', v) :: rest => if k' = k then some v else lookupSnap k rest

def eraseSnap (k : Bytes × Bytes) : Snaps → Snaps
  | [] => []
  | (k', v) :: rest => if k' = k then eraseSnap k rest else (k', v) :: eraseSnap k rest

section
variable (H : Bytes → Bytes)

def astep (c : CState) : AStep → CState × Out
  | .op o =>
    let (s', out) := step H c.st o
    ({ c with st := s' }, out)
  | .commitCheck r id dig =>
    match getBuffer c.st r id with
    | none => (c, .err "NO-WRITER")
    | some (rp, b) =>
      match b.commitErr with
      | some e => (c, .err e)
      | none =>
        if H b.buf ≠ dig then
          ({ c with st := putBuffer c.st r rp id { b with commitErr := some "DIGEST_INVALID" } }, .err "DIGEST_INVALID")
        else
          ({ st := putBuffer c.st r rp id { b with committed := true },
             snaps := ((r, id), (dig, b.buf)) :: eraseSnap (r, id) c.snaps }, .okUnit)
  | .commitStore r id =>
    match lookupSnap (r, id) c.snaps with
    | none => (c, .err "NOT-CHECKED")
    | some (dig, data) =>
      match getRepo c.st r with
      | none => (c, .err "NAME_UNKNOWN")     -- unreachable: repositories are never removed
      | some rp =>
        ({ st := putRepo c.st r { rp with blobs := ainsert dig ⟨octetStream, data, [], []⟩ rp.blobs },
           snaps := eraseSnap (r, id) c.snaps }, .okDesc ⟨octetStream, dig, data.length⟩)

def arun (c : CState) : List AStep → CState
  | [] => c
  | a :: rest => arun (astep H c a).1 rest

/-- every pending snapshot hashes to the digest it will be stored under -/
def SnapsOk (sn : Snaps) : Prop := ∀ k dig data, lookupSnap k sn = some (dig, data) → H data = dig

end

/-! ### The commit lock (`Buffer.commitMu`, fix F33)

`Buffer.Commit` and `Buffer.Cancel` hold `Buffer.commitMu` for their whole body (regenerated fact
`Generated.Locks.wholeBodyLocks`: rows `("Buffer","Commit",m)` and `("Buffer","Cancel",m)` with the
same mutex `m` = `commitMu`; obligation `Props.C08.generated_commit_serialized`). So, per upload
session, a `Commit` that has passed its first critical section (`commitCheck` answered `okUnit`)
keeps the lock until its second one (`commitStore`), and meanwhile no other `Commit` — neither of
its sections, nor the one-step `wCommit` — and no `Cancel` of that session can run. A `Commit`
whose check refuses returns at once and releases the lock. Everything else (writes to that very
session, `Size`, resumes, other sessions, the registry's own operations) does not take `commitMu`
and may come in between. `CommitSerial` below says exactly that of a schedule, and nothing more.
`astep` / `arun` themselves are unchanged: they still describe what happens WITHOUT the lock
(`Props.C08.dual_commit_anomaly_without_the_lock`). -/

/-- the sessions `(repo, id)` whose `commitMu` is held by a `Commit` between its two sections -/
abbrev Held := List (Bytes × Bytes)

/-- `a` is a step of a call that takes the `commitMu` of session `(r, id)`: a section of a
`Commit` of it, a one-step `Commit` (`wCommit`), or a `Cancel` (`wCancel`) -/
def TakesCommitMu (r id : Bytes) : AStep → Prop
  | .commitCheck r' id' _ => r' = r ∧ id' = id
  | .commitStore r' id' => r' = r ∧ id' = id
  | .op (.wCommit r' id' _) => r' = r ∧ id' = id
  | .op (.wCancel r' id') => r' = r ∧ id' = id
  | .op _ => False

/-- What step `a`, which answered `out`, does to the commit locks; `none`: the step cannot run
now, because it needs a `commitMu` that a `Commit` in progress holds.
  * `commitCheck` acquires the lock of its session and keeps it iff the check passed;
  * `commitStore` is the end of the `Commit` that holds the lock of its session: it releases it
    (a `commitStore` with no `Commit` in progress has no counterpart in Go; it is not restricted);
  * `wCancel` and the one-step `wCommit` acquire and release the lock within the step;
  * no other step touches a `commitMu`. -/
def lockStep (held : Held) (a : AStep) (out : Out) : Option Held :=
  match a with
  | .commitCheck r id _ =>
    if held.contains (r, id) then none else some (if out = .okUnit then (r, id) :: held else held)
  | .commitStore r id => some (held.filter fun k => !(k == (r, id)))
  | .op (.wCommit r id _) => if held.contains (r, id) then none else some held
  | .op (.wCancel r id) => if held.contains (r, id) then none else some held
  | .op _ => some held

section
variable (H : Bytes → Bytes)

/-- the schedule respects the commit locks, started in state `c` with the locks `held` taken -/
def commitSerialFrom (c : CState) (held : Held) : List AStep → Bool
  | [] => true
  | a :: rest =>
    match lockStep held a (astep H c a).2 with
    | none => false
    | some held' => commitSerialFrom (astep H c a).1 held' rest

/-- The schedule, run from `c` with no `Commit` in progress, respects `Buffer.commitMu`: between a
`commitCheck r id _` that succeeds and the `commitStore r id` that belongs to it (the next one)
there is no other `commitCheck r id _`, no `wCommit r id _`, and no `wCancel r id`
(`MemConc.commitSerial_window` is this reading, proved). It is a Boolean checker, so that for a
concrete schedule and hash it is settled by evaluation. -/
def CommitSerial (c : CState) (sched : List AStep) : Prop := commitSerialFrom H c [] sched = true

instance (c : CState) (sched : List AStep) : Decidable (CommitSerial H c sched) :=
  inferInstanceAs (Decidable (_ = true))

end

/-! ### Linearization from atomic steps -/

/-- A concurrent execution as a trace of events: invocation, the atomic step, response of
operation `id`. -/
inductive Ev where
  | inv (id : Nat)
  | step (id : Nat)
  | ret (id : Nat)
  deriving DecidableEq, Repr

/-- position of the first occurrence of an event -/
def pos (e : Ev) : List Ev → Option Nat
  | [] => none
  | x :: xs => if x = e then some 0 else (pos e xs).map (· + 1)

/-- Every operation's atomic step lies between its invocation and its response. -/
def WellFormed (tr : List Ev) (ids : List Nat) : Prop :=
  ∀ id ∈ ids, ∃ i s r, pos (.inv id) tr = some i ∧ pos (.step id) tr = some s ∧ pos (.ret id) tr = some r ∧ i < s ∧ s < r

end OciModel.MemConc
