/-
Lemmas about the handler execution model (`OciModel/SrvHandlers.lean`):
  * runs are monotone in the oracle (a static oracle that leaves a condition open admits
    every run of an environment that decides it);
  * the per-variable automaton `balanced` implies the counting statement `ClosedExactlyOnce`;
  * `argOk` is sound for requests classified by the router (`ParsedReq`);
  * Bool-to-Prop unfolding of the success check.
-/
import OciModel.SrvHandlers
import OciModel.ReqCodecLemmas

namespace OciModel.SrvHandlers
open OciModel.SrvIR OciModel.ReqCodec OciModel.Ref

/-! ### Monotonicity in the oracle -/

/-- `o1` decides at least what `o2` decides, the same way. -/
def Oracle.le (o1 o2 : Oracle) : Prop :=
  (∀ b ∈ o1.tag, b ∈ o2.tag) ∧ ∀ n, ∀ b ∈ o1.opt n, b ∈ o2.opt n

theorem condVals_mono {o1 o2 : Oracle} (h : o1.le o2) (e : Bool) (c : Cond) :
    ∀ b ∈ condVals o1 e c, b ∈ condVals o2 e c := by
  induction c with
  | errSet => intro b hb; exact hb
  | tagSet => exact h.1
  | opt n => exact h.2 n
  | not c ih =>
    intro b hb
    simp only [condVals, List.mem_map] at hb ⊢
    obtain ⟨x, hx, rfl⟩ := hb
    exact ⟨x, ih x hx, rfl⟩
  | or a b iha ihb =>
    intro x hx
    simp only [condVals, List.mem_flatMap, List.mem_map] at hx ⊢
    obtain ⟨p, hp, q, hq, rfl⟩ := hx
    exact ⟨p, iha p hp, q, ihb q hq, rfl⟩
  | and a b iha ihb =>
    intro x hx
    simp only [condVals, List.mem_flatMap, List.mem_map] at hx ⊢
    obtain ⟨p, hp, q, hq, rfl⟩ := hx
    exact ⟨p, iha p hp, q, ihb q hq, rfl⟩
  | unknown _ => intro b hb; exact hb

theorem stepAtom_mono {inv1 inv2 : String → St → List (St × Bool)}
    (hinv : ∀ f s x, x ∈ inv1 f s → x ∈ inv2 f s) (a : Atom) (s : St) :
    ∀ x ∈ stepAtom inv1 a s, x ∈ stepAtom inv2 a s := by
  cases a with
  | invoke f =>
    intro x hx
    simp only [stepAtom, List.mem_map] at hx ⊢
    obtain ⟨r, hr, rfl⟩ := hx
    exact ⟨r, hinv f s r hr, rfl⟩
  | _ => intro x hx; exact hx

theorem runP_mono {inv1 inv2 : String → St → List (St × Bool)} {o1 o2 : Oracle}
    (hinv : ∀ f s x, x ∈ inv1 f s → x ∈ inv2 f s) (ho : o1.le o2) (p : Prog) :
    ∀ s x, x ∈ runP inv1 o1 p s → x ∈ runP inv2 o2 p s := by
  induction p with
  | nil => intro s x hx; exact hx
  | ret r => intro s x hx; exact hx
  | unknownShape w => intro s x hx; exact hx
  | atom a k ih =>
    intro s x hx
    simp only [runP, List.mem_flatMap] at hx ⊢
    obtain ⟨s', hs', hx'⟩ := hx
    exact ⟨s', stepAtom_mono hinv a s s' hs', ih s' x hx'⟩
  | alt c p q k ihp ihq ihk =>
    intro s x hx
    simp only [runP, List.mem_flatMap] at hx ⊢
    obtain ⟨r, ⟨b, hb, hr⟩, hx'⟩ := hx
    refine ⟨r, ⟨b, condVals_mono ho s.err c b hb, ?_⟩, ?_⟩
    · cases b
      · simpa using ihq s r (by simpa using hr)
      · simpa using ihp s r (by simpa using hr)
    · cases hr2 : r.2 with
      | some e => simpa [hr2] using hx'
      | none =>
        simp only [hr2] at hx' ⊢
        exact ihk r.1 x hx'

theorem runF_mono (tbl : List (String × Prog)) {o1 o2 : Oracle} (ho : o1.le o2) (n : Nat) :
    ∀ f s x, x ∈ runF tbl o1 n f s → x ∈ runF tbl o2 n f s := by
  induction n with
  | zero => intro f s x hx; exact hx
  | succ n ih =>
    intro f s x hx
    simp only [runF] at hx ⊢
    cases hl : tbl.lookup f with
    | none => simpa [hl] using hx
    | some p =>
      simp only [hl, List.mem_map] at hx ⊢
      obtain ⟨r, hr, rfl⟩ := hx
      exact ⟨r, runP_mono ih ho p _ r hr, rfl⟩

theorem serve_mono (tbl : List (String × Prog)) (disp : List (String × String)) {o1 o2 : Oracle}
    (ho : o1.le o2) (k : Kind) : ∀ x ∈ serve tbl disp o1 k, x ∈ serve tbl disp o2 k :=
  fun x hx => runF_mono tbl ho depth _ _ x hx

theorem mem_both (b : Bool) : b ∈ both := by cases b <;> simp [both]

/-- An environment's oracle is below the static oracle that fixes the tag condition to the
environment's value and the listed options to the environment's values. -/
theorem envOracle_le_static (e : Env) (known : List (String × Bool))
    (hk : ∀ n b, known.lookup n = some b → e.opt n = b) :
    (envOracle e).le (staticOracle [e.tagSet] known) := by
  refine ⟨fun b hb => hb, fun n b hb => ?_⟩
  simp only [envOracle, List.mem_singleton] at hb
  simp only [staticOracle]
  cases hl : known.lookup n with
  | none => exact mem_both b
  | some b' => simp [hb, hk n b' hl]

theorem envOracle_le_open (e : Env) : (envOracle e).le (staticOracle both []) := by
  refine ⟨fun b _ => mem_both b, fun n b _ => ?_⟩
  simp only [staticOracle, List.lookup]
  exact mem_both b

theorem mem_allKinds (k : Kind) : k ∈ allKinds := by cases k <;> simp [allKinds]

/-! ### `balanced` means closed exactly once -/

theorem altOk_sound (v : String) : ∀ (t : List Ev) (o : Bool), altOk v o t = true →
    acqs v t + (if o then 1 else 0) = closes v t ∧
    ∀ pre, pre <+: t →
      closes v pre ≤ acqs v pre + (if o then 1 else 0) ∧
      acqs v pre + (if o then 1 else 0) ≤ closes v pre + 1 := by
  intro t
  induction t with
  | nil =>
    intro o h
    cases o
    · refine ⟨rfl, fun pre hp => ?_⟩
      have : pre = [] := List.prefix_nil.mp hp
      subst this; simp [acqs, closes]
    · simp [altOk] at h
  | cons e t ih =>
    intro o h
    have nilCase : closes v [] ≤ acqs v [] + (if o then 1 else 0) ∧
        acqs v [] + (if o then 1 else 0) ≤ closes v [] + 1 := by
      cases o <;> simp [acqs, closes]
    cases e with
    | call c ok =>
      simp only [altOk] at h
      obtain ⟨h1, h2⟩ := ih o h
      refine ⟨by simpa [acqs, closes] using h1, fun pre hp => ?_⟩
      rcases List.prefix_cons_iff.mp hp with rfl | ⟨t', rfl, ht'⟩
      · exact nilCase
      · simpa [acqs, closes] using h2 t' ht'
    | acq w =>
      by_cases hw : w = v
      · subst hw
        simp only [altOk, if_true, Bool.and_eq_true, Bool.not_eq_true'] at h
        obtain ⟨ho, h⟩ := h
        subst ho
        obtain ⟨h1, h2⟩ := ih true h
        simp only [if_true] at h1 h2
        refine ⟨by simp [acqs, closes]; omega, fun pre hp => ?_⟩
        rcases List.prefix_cons_iff.mp hp with rfl | ⟨t', rfl, ht'⟩
        · exact nilCase
        · have := h2 t' ht'
          simp [acqs, closes]; omega
      · simp only [altOk, if_neg hw] at h
        obtain ⟨h1, h2⟩ := ih o h
        refine ⟨by simpa [acqs, closes, hw] using h1, fun pre hp => ?_⟩
        rcases List.prefix_cons_iff.mp hp with rfl | ⟨t', rfl, ht'⟩
        · exact nilCase
        · simpa [acqs, closes, hw] using h2 t' ht'
    | close w =>
      by_cases hw : w = v
      · subst hw
        simp only [altOk, if_true, Bool.and_eq_true] at h
        obtain ⟨ho, h⟩ := h
        subst ho
        obtain ⟨h1, h2⟩ := ih false h
        simp only [Bool.false_eq_true, if_false, Nat.add_zero] at h1 h2
        refine ⟨by simp [acqs, closes]; omega, fun pre hp => ?_⟩
        rcases List.prefix_cons_iff.mp hp with rfl | ⟨t', rfl, ht'⟩
        · exact nilCase
        · have := h2 t' ht'
          simp [acqs, closes]; omega
      · simp only [altOk, if_neg hw] at h
        obtain ⟨h1, h2⟩ := ih o h
        refine ⟨by simpa [acqs, closes, hw] using h1, fun pre hp => ?_⟩
        rcases List.prefix_cons_iff.mp hp with rfl | ⟨t', rfl, ht'⟩
        · exact nilCase
        · simpa [acqs, closes, hw] using h2 t' ht'

/-- a variable the trace never mentions passes the automaton trivially -/
theorem altOk_of_not_mem (v : String) : ∀ (t : List Ev) (o : Bool), v ∉ traceVars t → altOk v o t = !o := by
  intro t
  induction t with
  | nil => intro o _; rfl
  | cons e t ih =>
    intro o h
    cases e with
    | call c ok => simpa [altOk] using ih o (by simpa [traceVars] using h)
    | acq w =>
      simp only [traceVars, List.mem_cons, not_or] at h
      have hw : w ≠ v := fun e => h.1 e.symm
      simpa [altOk, hw] using ih o h.2
    | close w =>
      simp only [traceVars, List.mem_cons, not_or] at h
      have hw : w ≠ v := fun e => h.1 e.symm
      simpa [altOk, hw] using ih o h.2

theorem balanced_sound (t : List Ev) (h : balanced t = true) : ClosedExactlyOnce t := by
  intro v
  have hv : altOk v false t = true := by
    by_cases hm : v ∈ traceVars t
    · exact (List.all_eq_true.mp h) v hm
    · simpa using altOk_of_not_mem v t false hm
  simpa using altOk_sound v t false hv

/-! ### Arguments -/

theorem traceArgsOk_mem {mt : List (String × List (String × String))} {k : Kind} {tag : Bool} :
    ∀ t, traceArgsOk mt k tag t = true → ∀ c ok, Ev.call c ok ∈ t → callOk mt k tag c = true := by
  intro t
  induction t with
  | nil => intro _ c ok h; cases h
  | cons e t ih =>
    intro h c ok hm
    cases e with
    | call c' ok' =>
      simp only [traceArgsOk, Bool.and_eq_true] at h
      rcases List.mem_cons.mp hm with heq | hm
      · cases heq; exact h.1
      · exact ih h.2 c ok hm
    | acq w =>
      simp only [traceArgsOk] at h
      rcases List.mem_cons.mp hm with heq | hm
      · cases heq
      · exact ih h c ok hm
    | close w =>
      simp only [traceArgsOk] at h
      rcases List.mem_cons.mp hm with heq | hm
      · cases heq
      · exact ih h c ok hm

section
variable (unb64 : Bytes → Option Bytes) (validUTF8 : Bytes → Bool)

theorem repoKind_valid {r : Request} (hp : ParsedReq unb64 validUTF8 r) (h : repoKind r.kind = true) :
    isRepo r.repo = true := by
  apply parsed_repo unb64 validUTF8 hp <;> intro hk <;> rw [hk] at h <;> cases h

theorem mountKind_valid {r : Request} (hp : ParsedReq unb64 validUTF8 r) (h : r.kind = .blobMount) :
    isRepo r.fromRepo = true := by
  obtain ⟨kind, repo, digest, tag, fromRepo, uploadID, listN, listLast⟩ := r
  simp only at h
  subst h
  simp only [ParsedReq] at hp
  exact hp.2.2.1

theorem digestKind_valid {r : Request} (hp : ParsedReq unb64 validUTF8 r)
    (h : digestKind r.kind (decide (r.tag ≠ [])) = true) : isDigest r.digest = true := by
  obtain ⟨kind, repo, digest, tag, fromRepo, uploadID, listN, listLast⟩ := r
  cases kind <;> simp only [digestKind] at h <;> simp only [ParsedReq, Request.mk.injEq, true_and] at hp <;>
    first
      | exact absurd h (by decide)
      | exact hp.2.1
      | exact hp.2.2.2.1
      | (rcases hp.2 with h' | h'
         · exact h'.1
         · exfalso
           have ht : tag = [] := by simpa using h
           rw [ht] at h'
           exact absurd h'.1 (by decide))

theorem tagKind_valid {r : Request} (hp : ParsedReq unb64 validUTF8 r) (h : r.tag ≠ []) :
    isTag r.tag = true := parsed_tag unb64 validUTF8 hp h

theorem uploadKind_valid {r : Request} (hp : ParsedReq unb64 validUTF8 r) (h : uploadKind r.kind = true) :
    validUTF8 r.uploadID = true := by
  refine (parsed_upload unb64 validUTF8 hp ?_).1
  revert h; cases r.kind <;> simp [uploadKind, Kind.isUpload]

/-- `argOk` is sound: an accepted argument of a request the router classified is valid. -/
theorem argOk_sound {r : Request} (hp : ParsedReq unb64 validUTF8 r) (role : Role) (p : Prov)
    (h : argOk r.kind (decide (r.tag ≠ [])) role p = true) : ArgValid validUTF8 r role p := by
  cases role with
  | free => exact Or.inl rfl
  | repo =>
    cases p <;> simp only [argOk, Bool.or_eq_true, Bool.and_eq_true, beq_iff_eq] at h <;> try (exact absurd h (by decide))
    rename_i f
    rcases h with ⟨rfl, hk⟩ | ⟨rfl, hk⟩
    · exact Or.inr ⟨by simp [provValues, fieldVal], by
        intro v hv
        have : v = r.repo := by simpa [provValues, fieldVal] using hv
        subst this; exact repoKind_valid unb64 validUTF8 hp hk⟩
    · exact Or.inr ⟨by simp [provValues, fieldVal], by
        intro v hv
        have : v = r.fromRepo := by simpa [provValues, fieldVal] using hv
        subst this; exact mountKind_valid unb64 validUTF8 hp hk⟩
  | digest =>
    cases p <;> simp only [argOk, Bool.and_eq_true, beq_iff_eq] at h <;> try (exact absurd h (by decide))
    obtain ⟨rfl, hk⟩ := h
    exact Or.inr ⟨by simp [provValues, fieldVal], by
      intro v hv
      have : v = r.digest := by simpa [provValues, fieldVal] using hv
      subst this; exact digestKind_valid unb64 validUTF8 hp hk⟩
  | tag =>
    cases p <;> simp only [argOk, Bool.and_eq_true, beq_iff_eq, decide_eq_true_eq] at h <;> try (exact absurd h (by decide))
    obtain ⟨⟨rfl, _⟩, ht⟩ := h
    exact Or.inr ⟨by simp [provValues, fieldVal], by
      intro v hv
      have : v = r.tag := by simpa [provValues, fieldVal] using hv
      subst this; exact tagKind_valid unb64 validUTF8 hp ht⟩
  | tagOpt =>
    have htag : r.tag = [] ∨ isTag r.tag = true := by
      by_cases ht : r.tag = []
      · exact Or.inl ht
      · exact Or.inr (tagKind_valid unb64 validUTF8 hp ht)
    cases p <;> simp only [argOk, beq_iff_eq] at h <;> try (exact absurd h (by decide))
    · subst h
      exact Or.inr ⟨by simp [provValues, fieldVal], by
        intro v hv
        have : v = r.tag := by simpa [provValues, fieldVal] using hv
        subst this; exact htag⟩
    · subst h
      exact Or.inr ⟨by simp [provValues, fieldVal], by
        intro v hv
        have : v = r.tag ∨ v = [] := by simpa [provValues, fieldVal] using hv
        rcases this with rfl | rfl
        · exact htag
        · exact Or.inl rfl⟩
    · subst h
      exact Or.inr ⟨by simp [provValues], by
        intro v hv
        have : v = [] := by simpa [provValues, strBytes] using hv
        exact Or.inl this⟩
  | uploadID =>
    cases p <;> simp only [argOk, Bool.and_eq_true, beq_iff_eq] at h <;> try (exact absurd h (by decide))
    obtain ⟨rfl, hk⟩ := h
    exact Or.inr ⟨by simp [provValues, fieldVal], by
      intro v hv
      have : v = r.uploadID := by simpa [provValues, fieldVal] using hv
      subst this; exact uploadKind_valid unb64 validUTF8 hp hk⟩
  | descDigest =>
    cases p with
    | desc d =>
      cases d with
      | field f =>
        simp only [argOk, Bool.and_eq_true, beq_iff_eq] at h
        obtain ⟨rfl, hk⟩ := h
        exact Or.inr ⟨by simp [provValues, fieldVal], by
          intro v hv
          have : v = r.digest := by simpa [provValues, fieldVal] using hv
          subst this; exact digestKind_valid unb64 validUTF8 hp hk⟩
      | _ => simp [argOk] at h
    | _ => simp [argOk] at h

theorem callOk_sound {mt : List (String × List (String × String))} {r : Request}
    (hp : ParsedReq unb64 validUTF8 r) (c : Call)
    (h : callOk mt r.kind (decide (r.tag ≠ [])) c = true) : CallValid validUTF8 mt r c := by
  unfold callOk at h
  cases hr : roles mt c.method with
  | none => simp [hr] at h
  | some rs =>
    simp only [hr, Bool.and_eq_true, beq_iff_eq, List.all_eq_true] at h
    exact ⟨rs, hr, h.1, fun x hx => argOk_sound unb64 validUTF8 hp x.1 x.2 (h.2 x hx)⟩

end

/-! ### Successes -/

/-- The meaning of `successOk`. -/
def SuccessOk (k : Kind) (tag omitD single : Bool) (f : St × Bool) : Prop :=
  f.2 = false → 200 ≤ f.1.finalStatus → f.1.finalStatus < 300 →
    f.1.finalStatus ∈ successStatus k single ∧
    ∀ h ∈ mandatory k f.1.finalStatus tag omitD single, h ∈ f.1.hdrs

theorem successOk_sound {k : Kind} {tag omitD single : Bool} {f : St × Bool}
    (h : successOk k tag omitD single f = true) : SuccessOk k tag omitD single f := by
  intro h1 h2 h3
  simp only [successOk, Bool.or_eq_true, Bool.not_eq_true', Bool.and_eq_true, decide_eq_true_eq,
    Bool.and_eq_false_imp, List.all_eq_true, List.contains_iff_mem] at h
  rcases h with (h | h) | h
  · rw [h1] at h; cases h
  · have := h h2
    simp only [decide_eq_false_iff_not] at this
    exact absurd h3 this
  · exact h

end OciModel.SrvHandlers
