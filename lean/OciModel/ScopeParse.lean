/-
Print/parse round trip for the `ociauth.Scope` model: helper lemmas about
`fields` (`strings.Fields`), `splitOn` (`strings.Split`), `renderGo`
(`Scope.String`) and `parseField`.
-/
import OciModel.ScopeLemmas

namespace OciModel.Scope

/-! ### `strings.Fields` on space-separated clean words -/

/-- Bytes that cannot start a Unicode white-space rune. -/
def NSB (c : UInt8) : Prop :=
  c ≠ 9 ∧ c ≠ 10 ∧ c ≠ 11 ∧ c ≠ 12 ∧ c ≠ 13 ∧ c ≠ 32 ∧ c ≠ 0xC2 ∧ c ≠ 0xE1 ∧ c ≠ 0xE2 ∧ c ≠ 0xE3

theorem spaceWidth_of_nsb {c : UInt8} (h : NSB c) (rest : Bytes) : spaceWidth (c :: rest) = 0 := by
  obtain ⟨h1, h2, h3, h4, h5, h6, h7, h8, h9, h10⟩ := h
  unfold spaceWidth
  split <;> first | rfl | (exfalso; simp_all)

theorem fieldsAux_word (w rest cur : Bytes) (fuel : Nat) (hw : ∀ c ∈ w, NSB c)
    (hf : w.length ≤ fuel) :
    fieldsAux fuel (w ++ rest) cur = fieldsAux (fuel - w.length) rest (w.reverse ++ cur) := by
  induction w generalizing fuel cur with
  | nil => simp
  | cons c w ih =>
    cases fuel with
    | zero => simp at hf
    | succ fuel =>
      have hc := spaceWidth_of_nsb (hw c List.mem_cons_self) (w ++ rest)
      simp only [List.cons_append, fieldsAux, hc, if_true]
      rw [ih (c :: cur) fuel (fun c' h => hw c' (List.mem_cons_of_mem _ h))
        (by simpa using hf)]
      simp

theorem fieldsAux_space (rest cur : Bytes) (fuel : Nat) :
    fieldsAux (fuel + 1) (32 :: rest) cur =
      (if cur = [] then [] else [cur.reverse]) ++ fieldsAux fuel rest [] := by
  simp [fieldsAux, spaceWidth]

theorem fieldsAux_nil (cur : Bytes) (fuel : Nat) :
    fieldsAux fuel [] cur = if cur = [] then [] else [cur.reverse] := by
  cases fuel <;> simp [fieldsAux]

theorem fieldsAux_words (fs : List Bytes) (cur : Bytes) (fuel : Nat)
    (hfs : ∀ f ∈ fs, f ≠ [] ∧ ∀ c ∈ f, NSB c)
    (hf : (fs.flatMap (32 :: ·)).length ≤ fuel) :
    fieldsAux fuel (fs.flatMap (32 :: ·)) cur = (if cur = [] then [] else [cur.reverse]) ++ fs := by
  induction fs generalizing cur fuel with
  | nil => simp [fieldsAux_nil]
  | cons f fs ih =>
    obtain ⟨hne, hns⟩ := hfs f List.mem_cons_self
    simp only [List.flatMap_cons, List.cons_append, List.length_cons, List.length_append] at hf ⊢
    cases fuel with
    | zero => omega
    | succ fuel =>
      rw [fieldsAux_space, fieldsAux_word f _ [] fuel hns (by omega),
        ih _ _ (fun f' h => hfs f' (List.mem_cons_of_mem _ h)) (by omega)]
      simp [hne]

theorem fields_words (f0 : Bytes) (fs : List Bytes) (h0 : f0 ≠ [] ∧ ∀ c ∈ f0, NSB c)
    (hfs : ∀ f ∈ fs, f ≠ [] ∧ ∀ c ∈ f, NSB c) :
    fields (f0 ++ fs.flatMap (32 :: ·)) = f0 :: fs := by
  unfold fields
  rw [fieldsAux_word f0 _ [] _ h0.2 (by simp), fieldsAux_words fs _ _ hfs (by simp)]
  simp [h0.1]

/-! ### `strings.Split` -/

theorem splitOn_ne_nil (sep : UInt8) (w : Bytes) : splitOn sep w ≠ [] := by
  induction w with
  | nil => simp [splitOn]
  | cons b w ih =>
    simp only [splitOn]
    split
    · simp
    · split <;> simp

theorem splitOn_cons_ne {sep b : UInt8} (h : b ≠ sep) (w : Bytes) :
    splitOn sep (b :: w) = ((b :: (splitOn sep w).head (splitOn_ne_nil sep w)) :: (splitOn sep w).tail) := by
  simp only [splitOn, h, if_false]
  have := splitOn_ne_nil sep w
  split
  · rename_i p ps heq; simp [heq]
  · rename_i heq; exact absurd heq this

theorem splitOn_word {sep : UInt8} {w : Bytes} (h : sep ∉ w) : splitOn sep w = [w] := by
  induction w with
  | nil => simp [splitOn]
  | cons b w ih =>
    have hb : b ≠ sep := fun e => h (e ▸ List.mem_cons_self)
    have hw : sep ∉ w := fun hm => h (List.mem_cons_of_mem _ hm)
    rw [splitOn_cons_ne hb]
    simp [ih hw]

theorem splitOn_word_sep {sep : UInt8} {w : Bytes} (h : sep ∉ w) (rest : Bytes) :
    splitOn sep (w ++ sep :: rest) = w :: splitOn sep rest := by
  induction w with
  | nil => simp [splitOn]
  | cons b w ih =>
    have hb : b ≠ sep := fun e => h (e ▸ List.mem_cons_self)
    have hw : sep ∉ w := fun hm => h (List.mem_cons_of_mem _ hm)
    rw [List.cons_append, splitOn_cons_ne hb]
    simp [ih hw]

theorem splitOn_joined {sep : UInt8} (a : Bytes) (acts : List Bytes) (ha : sep ∉ a)
    (hacts : ∀ b ∈ acts, sep ∉ b) :
    splitOn sep (a ++ acts.flatMap (sep :: ·)) = a :: acts := by
  induction acts generalizing a with
  | nil => simp [splitOn_word ha]
  | cons b acts ih =>
    simp only [List.flatMap_cons, List.cons_append]
    rw [splitOn_word_sep ha, ih b (hacts b List.mem_cons_self)
      (fun b' h => hacts b' (List.mem_cons_of_mem _ h))]


/-! ### Clean fields -/

/-- A byte that is neither (the first byte of) white space nor `:` nor `,`. -/
def CleanByte (c : UInt8) : Prop :=
  c ∉ ([9, 10, 11, 12, 13, 32, 58, 44, 0xC2, 0xE1, 0xE2, 0xE3] : List UInt8)

instance : DecidablePred CleanByte := fun c => by unfold CleanByte; infer_instance

/-- A non-empty byte string of clean bytes. -/
def CleanField (b : Bytes) : Prop := b ≠ [] ∧ ∀ c ∈ b, CleanByte c

instance : DecidablePred CleanField := fun b => by unfold CleanField; infer_instance

/-- A three-part scope with clean parts, or an opaque one-word scope. -/
def CleanRS (r : RS) : Prop :=
  (CleanField r.1 ∧ CleanField r.2.1 ∧ CleanField r.2.2) ∨ (CleanField r.1 ∧ r.2.1 = [] ∧ r.2.2 = [])

instance : DecidablePred CleanRS := fun r => by unfold CleanRS; infer_instance

theorem CleanByte.nsb {c : UInt8} (h : CleanByte c) : NSB c := by
  simp [CleanByte] at h; simp [NSB]; grind

theorem CleanByte.ne_colon {c : UInt8} (h : CleanByte c) : c ≠ 58 := by
  simp [CleanByte] at h; grind

theorem CleanByte.ne_comma {c : UInt8} (h : CleanByte c) : c ≠ 44 := by
  simp [CleanByte] at h; grind

theorem CleanField.no_colon {b : Bytes} (h : CleanField b) : (58 : UInt8) ∉ b :=
  fun hm => (h.2 _ hm).ne_colon rfl

theorem CleanField.no_comma {b : Bytes} (h : CleanField b) : (44 : UInt8) ∉ b :=
  fun hm => (h.2 _ hm).ne_comma rfl

theorem CleanRS.fst {r : RS} (h : CleanRS r) : CleanField r.1 := by
  rcases h with h | h <;> exact h.1


/-! ### The structure of `renderGo`'s output -/

/-- `Scope.String` appends `,action` instead of starting a new word. -/
def mergeCond (prev s : RS) : Bool :=
  s.1 = tyRepository && prev.1 = tyRepository && s.2.1 = prev.2.1

/-- The text of one scope when it starts a word. -/
def body (s : RS) : Bytes :=
  s.1 ++ (if s.2.1 ≠ [] || s.2.2 ≠ [] then (58 :: s.2.1) ++ (58 :: s.2.2) else [])

/-- Split the iterated items into the actions continuing `prev`'s word and the
following words, each a head scope with further actions. -/
def rgroups : RS → List RS → List Bytes × List (RS × List Bytes)
  | _, [] => ([], [])
  | prev, s :: rest =>
    if mergeCond prev s then (s.2.2 :: (rgroups s rest).1, (rgroups s rest).2)
    else ([], (s, (rgroups s rest).1) :: (rgroups s rest).2)

def gstr (g : RS × List Bytes) : Bytes := body g.1 ++ g.2.flatMap (44 :: ·)

def gelems (g : RS × List Bytes) : List RS := g.1 :: g.2.map (fun a => (g.1.1, g.1.2.1, a))

theorem renderGo_true (prev : RS) (xs : List RS) :
    renderGo prev true xs =
      (rgroups prev xs).1.flatMap (44 :: ·) ++ (rgroups prev xs).2.flatMap (fun g => 32 :: gstr g) := by
  induction xs generalizing prev with
  | nil => simp [renderGo, rgroups]
  | cons s rest ih =>
    by_cases h : mergeCond prev s = true
    · have h' := h
      unfold mergeCond at h'
      simp only [renderGo, rgroups, h, h', if_true, ih s]
      simp
    · have h' := h
      unfold mergeCond at h'
      simp only [renderGo, rgroups, h, h', Bool.true_or, ih s]
      simp [gstr, body]

theorem renderGo_start (s : RS) (rest : List RS) (hs : s.1 ≠ []) :
    renderGo ([], [], []) false (s :: rest) = body s ++ renderGo s true rest := by
  have h1 : ¬ (([] : Bytes) = tyRepository) := by decide
  have h2 : body s ≠ [] := by simp [body, hs]
  simp only [renderGo, h1, decide_false, Bool.and_false, Bool.false_and, Bool.false_eq_true,
    if_false, List.nil_append]
  simp [body, hs]

theorem mem_rgroups (prev : RS) (xs : List RS) (x : RS) :
    x ∈ xs ↔ x ∈ (rgroups prev xs).1.map (fun a => (prev.1, prev.2.1, a)) ∨
      ∃ g ∈ (rgroups prev xs).2, x ∈ gelems g := by
  induction xs generalizing prev with
  | nil => simp [rgroups]
  | cons s rest ih =>
    by_cases h : mergeCond prev s = true
    · have hs : s = (prev.1, prev.2.1, s.2.2) := by
        simp only [mergeCond, Bool.and_eq_true, decide_eq_true_eq] at h
        obtain ⟨⟨h1, h2⟩, h3⟩ := h
        rw [h2, ← h1, ← h3]
      have hp : (prev.1, prev.2.1) = (s.1, s.2.1) := by rw [hs]
      simp only [rgroups, h, if_true, List.mem_cons, List.map_cons, ih s]
      have : ∀ a : Bytes, (prev.1, prev.2.1, a) = (s.1, s.2.1, a) := by
        intro a; rw [hs]
      simp only [this]
      have e : (s.1, s.2.1, s.2.2) = s := rfl
      rw [e]
      grind
    · simp only [rgroups, h, Bool.false_eq_true, if_false, List.mem_cons, List.map_nil,
        List.not_mem_nil, false_or, exists_eq_or_imp, ih s]
      simp only [gelems, List.mem_cons]
      grind

/-- Two distinct clean scopes that `Scope.String` merges both have three parts. -/
theorem full_of_mergeCond {prev s : RS} (hp : CleanRS prev) (hs : CleanRS s)
    (hne : prev ≠ s) (h : mergeCond prev s = true) :
    CleanField prev.2.2 ∧ CleanField s.2.2 := by
  simp only [mergeCond, Bool.and_eq_true, decide_eq_true_eq] at h
  obtain ⟨⟨h1, h2⟩, h3⟩ := h
  rcases hp with hp | hp
  · rcases hs with hs | hs
    · exact ⟨hp.2.2, hs.2.2⟩
    · exfalso
      have := hp.2.1.1
      rw [← h3, hs.2.1] at this
      exact this rfl
  · exfalso
    rcases hs with hs | hs
    · have := hs.2.1.1
      rw [h3, hp.2.1] at this
      exact this rfl
    · apply hne
      obtain ⟨t, r, a⟩ := prev
      obtain ⟨t', r', a'⟩ := s
      simp only at h1 h2 h3 hp hs
      rw [h1, h2, hp.2.1, hp.2.2, hs.2.1, hs.2.2]

structure GInv (prev : RS) (p : List Bytes × List (RS × List Bytes)) : Prop where
  cont_clean : ∀ a ∈ p.1, CleanField a
  cont_full : p.1 ≠ [] → prev.2.2 ≠ []
  groups : ∀ g ∈ p.2, CleanRS g.1 ∧ (∀ a ∈ g.2, CleanField a) ∧ (g.2 ≠ [] → g.1.2.2 ≠ [])

theorem rgroups_inv (prev : RS) (xs : List RS) (hclean : ∀ x ∈ prev :: xs, CleanRS x)
    (hasc : Asc (prev :: xs)) : GInv prev (rgroups prev xs) := by
  induction xs generalizing prev with
  | nil => constructor <;> simp [rgroups]
  | cons s rest ih =>
    have hasc' : Asc (s :: rest) := (List.pairwise_cons.mp hasc).2
    have hlt : compare prev s = .lt := (List.pairwise_cons.mp hasc).1 s List.mem_cons_self
    have hcp := hclean prev List.mem_cons_self
    have hcs := hclean s (List.mem_cons_of_mem _ List.mem_cons_self)
    have ih' := ih s (fun x hx => hclean x (List.mem_cons_of_mem _ hx)) hasc'
    by_cases h : mergeCond prev s = true
    · obtain ⟨f1, f2⟩ := full_of_mergeCond hcp hcs (lt_ne' hlt) h
      simp only [rgroups, h, if_true]
      constructor
      · intro a ha
        rcases List.mem_cons.mp ha with rfl | ha
        · exact f2
        · exact ih'.cont_clean a ha
      · intro _; exact f1.1
      · exact ih'.groups
    · simp only [rgroups, h, Bool.false_eq_true, if_false]
      constructor
      · simp
      · simp
      · intro g hg
        rcases List.mem_cons.mp hg with rfl | hg
        · exact ⟨hcs, ih'.cont_clean, ih'.cont_full⟩
        · exact ih'.groups g hg


/-! ### Parsing one rendered word -/

theorem no_colon_tail (a : Bytes) (acts : List Bytes) (ha : CleanField a)
    (hacts : ∀ b ∈ acts, CleanField b) : (58 : UInt8) ∉ a ++ acts.flatMap (44 :: ·) := by
  intro hm
  rcases List.mem_append.mp hm with hm | hm
  · exact ha.no_colon hm
  · obtain ⟨b, hb, hm⟩ := List.mem_flatMap.mp hm
    rcases List.mem_cons.mp hm with e | hm
    · cases e
    · exact (hacts b hb).no_colon hm

theorem parseField_gstr (g : RS × List Bytes) (hc : CleanRS g.1)
    (hacts : ∀ a ∈ g.2, CleanField a) (hop : g.2 ≠ [] → g.1.2.2 ≠ []) :
    parseField (gstr g) = gelems g := by
  obtain ⟨⟨t, r, a⟩, acts⟩ := g
  simp only at hc hacts hop
  rcases hc with ⟨ht, hr, ha⟩ | ⟨ht, hr, ha⟩
  · simp only at ht hr ha
    have hstr : gstr ((t, r, a), acts) = t ++ 58 :: (r ++ 58 :: (a ++ acts.flatMap (44 :: ·))) := by
      simp [gstr, body, hr.1]
    have hsplit : splitOn 58 (gstr ((t, r, a), acts)) = [t, r, a ++ acts.flatMap (44 :: ·)] := by
      rw [hstr, splitOn_word_sep ht.no_colon, splitOn_word_sep hr.no_colon,
        splitOn_word (no_colon_tail a acts ha hacts)]
    unfold parseField
    rw [hsplit]
    simp only
    rw [splitOn_joined a acts ha.no_comma (fun b hb => (hacts b hb).no_comma)]
    simp [gelems]
  · simp only at ht hr ha
    subst hr; subst ha
    have hnil : acts = [] := by
      cases acts with
      | nil => rfl
      | cons b bs => exact absurd rfl (hop (by simp))
    subst hnil
    have hstr : gstr ((t, [], []), []) = t := by simp [gstr, body]
    have hsplit : splitOn 58 (gstr ((t, [], []), [])) = [t] := by
      rw [hstr, splitOn_word ht.no_colon]
    unfold parseField
    rw [hsplit]
    simp [gelems, hstr]

theorem gstr_word (g : RS × List Bytes) (hc : CleanRS g.1) (hacts : ∀ a ∈ g.2, CleanField a) :
    gstr g ≠ [] ∧ ∀ c ∈ gstr g, NSB c := by
  have hcolon : NSB 58 := by unfold NSB; decide
  have hcomma : NSB 44 := by unfold NSB; decide
  constructor
  · have := hc.fst.1
    simp [gstr, body, this]
  · intro c hm
    have hfield : ∀ b : Bytes, CleanField b ∨ b = [] → c ∈ b → NSB c := by
      intro b hb hcb
      rcases hb with hb | hb
      · exact (hb.2 c hcb).nsb
      · subst hb; cases hcb
    have h1 : CleanField g.1.2.1 ∨ g.1.2.1 = [] := by
      rcases hc with h | h
      · exact Or.inl h.2.1
      · exact Or.inr h.2.1
    have h2 : CleanField g.1.2.2 ∨ g.1.2.2 = [] := by
      rcases hc with h | h
      · exact Or.inl h.2.2
      · exact Or.inr h.2.2
    simp only [gstr, body, List.mem_append] at hm
    rcases hm with (hm | hm) | hm
    · exact hfield _ (Or.inl hc.fst) hm
    · split at hm
      · simp only [List.cons_append, List.mem_cons, List.mem_append] at hm
        rcases hm with rfl | hm | rfl | hm
        · exact hcolon
        · exact hfield _ h1 hm
        · exact hcolon
        · exact hfield _ h2 hm
      · cases hm
    · obtain ⟨b, hb, hm⟩ := List.mem_flatMap.mp hm
      rcases List.mem_cons.mp hm with rfl | hm
      · exact hcomma
      · exact ((hacts b hb).2 c hm).nsb

/-! ### Parsing the rendering of a strictly ascending list of clean scopes -/

theorem flatMap_parseField_gstr (gs : List (RS × List Bytes))
    (h : ∀ g ∈ gs, CleanRS g.1 ∧ (∀ a ∈ g.2, CleanField a) ∧ (g.2 ≠ [] → g.1.2.2 ≠ [])) :
    (gs.map gstr).flatMap parseField = gs.flatMap gelems := by
  induction gs with
  | nil => rfl
  | cons g gs ih =>
    obtain ⟨h1, h2, h3⟩ := h g List.mem_cons_self
    simp only [List.map_cons, List.flatMap_cons, parseField_gstr g h1 h2 h3,
      ih (fun g' hg' => h g' (List.mem_cons_of_mem _ hg'))]

theorem parse_render (xs : List RS) (hclean : ∀ x ∈ xs, CleanRS x) (hasc : Asc xs) (x : RS) :
    x ∈ (fields (renderGo ([], [], []) false xs)).flatMap parseField ↔ x ∈ xs := by
  cases xs with
  | nil => simp [renderGo, fields, fieldsAux]
  | cons s rest =>
    have hs := hclean s List.mem_cons_self
    have inv := rgroups_inv s rest hclean hasc
    have hall : ∀ g ∈ (s, (rgroups s rest).1) :: (rgroups s rest).2,
        CleanRS g.1 ∧ (∀ a ∈ g.2, CleanField a) ∧ (g.2 ≠ [] → g.1.2.2 ≠ []) := by
      intro g hg
      rcases List.mem_cons.mp hg with rfl | hg
      · exact ⟨hs, inv.cont_clean, inv.cont_full⟩
      · exact inv.groups g hg
    have hstr : renderGo ([], [], []) false (s :: rest) =
        gstr (s, (rgroups s rest).1) ++ ((rgroups s rest).2.map gstr).flatMap (32 :: ·) := by
      rw [renderGo_start s rest hs.fst.1, renderGo_true]
      simp [gstr, List.flatMap_map]
    rw [hstr, fields_words]
    · rw [← List.map_cons (f := gstr), flatMap_parseField_gstr _ hall, List.mem_cons, mem_rgroups s rest x]
      simp only [List.flatMap_cons, List.mem_append, List.mem_flatMap, gelems, List.mem_cons]
      grind
    · exact gstr_word _ hs inv.cont_clean
    · intro f hf
      obtain ⟨g, hg, rfl⟩ := List.mem_map.mp hf
      exact gstr_word g (inv.groups g hg).1 (inv.groups g hg).2.1

/-! ### Round trip -/

theorem asc_ext {l1 l2 : List RS} (h1 : Asc l1) (h2 : Asc l2) (h : ∀ x, x ∈ l1 ↔ x ∈ l2) :
    l1 = l2 :=
  containsOthers_antisymm ((containsOthers_iff h1 h2).mpr (fun x hx => (h x).mpr hx))
    ((containsOthers_iff h2 h1).mpr (fun x hx => (h x).mp hx))

theorem sortU_congr {l1 l2 : List RS} (h : ∀ x, x ∈ l1 ↔ x ∈ l2) : sortU l1 = sortU l2 :=
  asc_ext ((strictAsc_iff_pairwise _).mp (sortU_strictAsc l1))
    ((strictAsc_iff_pairwise _).mp (sortU_strictAsc l2))
    (fun x => by rw [mem_sortU, mem_sortU, h])

theorem newScope_congr {l1 l2 : List RS} (h : ∀ x, x ∈ l1 ↔ x ∈ l2) : newScope l1 = newScope l2 := by
  rw [newScope_eq, newScope_eq, sortU_congr h]

theorem print_parse (l : List RS) (h : ∀ r ∈ l, CleanRS r) :
    equal (parseScope (toStr (newScope l))) (newScope l) = true := by
  have hwf := newScope_wf l
  have hl := newScope_unlimited l
  have horig : (newScope l).original = [] := by rw [newScope_eq]
  have hparse : ∀ s l', (∀ x, x ∈ (fields s).flatMap parseField ↔ x ∈ l') →
      equal (parseScope s) (newScope l') = true := by
    intro s l' hm
    rw [equal_iff_fields]
    simp [parseScope, newScope_congr hm]
  unfold toStr
  rw [hl, horig]
  simp only [Bool.false_eq_true, if_false, ne_eq, not_true_eq_false, decide_false, Bool.false_or]
  split
  · rename_i hemp
    obtain ⟨h1, h2, _⟩ := (isEmpty_iff _).mp hemp
    apply hparse
    intro x
    have : ¬ x ∈ l := by
      rw [← mem_newScope, Mem_iff hl, h1, h2]; simp [expand]
    simp [fields, fieldsAux, this]
  · apply hparse
    intro x
    rw [parse_render _ _ (iter_pairwise hwf)]
    · exact mem_newScope x l
    · intro y hy
      exact h y ((mem_newScope y l).mp hy)

end OciModel.Scope
