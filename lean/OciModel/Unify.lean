/-
Model of package `ociunify` (unify.go, reader.go, writer.go, lister.go, deleter.go):
the registry that presents the union of two member registries and replicates
every write to both.

Members are abstract: a member call is represented by its answer (`Res`). The
combinators are transcribed one for one from the Go source:

  `readFirst`    runReadSequential / the no-cancellation behaviour of runReadConcurrent
  `tagRule`      the `switch` of GetTag / ResolveTag
  `bothResults`  bothResults (unify.go)
  `eqOk`         the `(r0.err == nil) == (r1.err == nil)` test of PushBlob / PushManifest
  `mergeIter`    mergeIter (lister.go): All, All, NAME_UNKNOWN filter, Concat, SortFunc, CompactFunc
  `feed`         how a `Seq` is consumed (SliceSeq / ErrorSeq / the closure at the end of mergeIter)
  `joinID/splitID` unifiedBlobWriter.ID and the decoding at the top of PushBlobChunkedResume

Which method uses which combinator is not written here: it is regenerated from
the source by the translator (`OciModel.Generated.Unify`) and checked in
`Props/C15.lean`.

`step` instantiates the members with two copies of the `ocimem` model
(`OciModel.Mem`) and is what the driver executes in the correspondence check.

Core Lean only (linked into the `ocimodel` driver).
-/
import OciModel.Base
import OciModel.Mem

namespace OciModel.Unify

/-! ## Answers of a member -/

/-- The answer of one member to one call: a value, or an error of some class. -/
inductive Res (α : Type) where
  | ok (a : α)
  | err (cls : String)
  deriving DecidableEq, Repr

def Res.isOk {α} : Res α → Bool
  | .ok _ => true
  | .err _ => false

/-- `≈` of the property text: same success/failure and, on success, the same
key (digest, size, bytes for content; the error text is not compared). -/
def Res.equiv {α κ} (key : α → κ) (r r' : Res α) : Prop :=
  match r, r' with
  | .ok x, .ok y => key x = key y
  | .err _, .err _ => True
  | _, _ => False

/-! ## Digest-addressed reads: first success -/

/-- The value returned when `first` is the answer examined first and `second`
the other one: `runReadSequential` (member 0 is `first`), and
`runReadConcurrent` without caller cancellation (`first` is whichever member
answers first; on the second `select` main returns whatever arrives). -/
def readFirst {α} (first second : Res α) : Res α :=
  match first with
  | .ok _ => first
  | .err _ => second

inductive Policy where
  | sequential
  | concurrent
  deriving DecidableEq, Repr

/-- The results a read may give under a policy (the concurrent policy may see
either member first). -/
def readAllowed {α} : Policy → Res α → Res α → List (Res α)
  | .sequential, a0, a1 => [readFirst a0 a1]
  | .concurrent, a0, a1 => [readFirst a0 a1, readFirst a1 a0]

/-! ## Tags: both members are asked -/

/-- GetTag / ResolveTag: `dig` is `Descriptor().Digest`. -/
def tagRule {α} (dig : α → Bytes) (r0 r1 : Res α) : Res α :=
  match r0, r1 with
  | .ok x, .ok y => if dig x = dig y then .ok x else .err "ERR"   -- "conflicting results for tag"
  | .err e, .err _ => .err e
  | .ok x, .err _ => .ok x
  | .err _, .ok y => .ok y

/-! ## Writes: both members, success only if both -/

/-- `errors.As` over `fmt.Errorf("r0 and r1 failed: %w; %w", e0, e1)` finds the
first error that carries an OCI code (`ERR` is the class of un-coded errors). -/
def joinCls (e0 e1 : String) : String := if e0 = "ERR" then e1 else e0

def bothResults {α} (r0 r1 : Res α) : Res α :=
  match r0, r1 with
  | .ok x, .ok _ => .ok x
  | .err e0, .err e1 => .err (joinCls e0 e1)
  | .err e0, .ok _ => .err e0
  | .ok _, .err e1 => .err e1

/-- PushBlob / PushManifest: `if (r0.err == nil) == (r1.err == nil) { return r0.get() }`,
else an un-coded error. -/
def eqOk {α} (r0 r1 : Res α) : Res α :=
  match r0, r1 with
  | .ok x, .ok _ => .ok x
  | .err e0, .err _ => .err e0
  | _, _ => .err "ERR"

/-! ## Listings -/

/-- What `ociregistry.All` extracts from a member's `Seq`: the items before the
first error, and that error if there is one. -/
structure Events (α : Type) where
  items : List α
  err   : Option String
  deriving DecidableEq, Repr

/-- `errors.Is(err, ociregistry.ErrNameUnknown)`. -/
def isNameUnknown : Option String → Bool
  | some c => c == "NAME_UNKNOWN"
  | none => false

section sort
variable {α : Type} (cmp : α → α → Ordering)

def insertBy (x : α) : List α → List α
  | [] => [x]
  | y :: ys => if cmp x y = .gt then y :: insertBy x ys else x :: y :: ys

/-- `slices.SortFunc`. Go's sort is not stable; for a `cmp` whose `eq` is
equality the sorted arrangement is unique (`strictAsc_unique` in UnifyLemmas), and
after `compactBy` it is unique up to `cmp`-equality in any case. -/
def sortBy (l : List α) : List α := l.foldr (insertBy cmp) []

def compactAux (prev : α) : List α → List α
  | [] => []
  | y :: ys => if cmp prev y = .eq then compactAux prev ys else y :: compactAux y ys

/-- `slices.CompactFunc(xs, func(a, b) bool { return cmp(a, b) == 0 })`. -/
def compactBy : List α → List α
  | [] => []
  | x :: xs => x :: compactAux cmp x xs

/-- `mergeIter` (lister.go). -/
def mergeIter (e0 e1 : Events α) : Events α :=
  let nf0 := isNameUnknown e0.err
  let nf1 := isNameUnknown e1.err
  if nf0 && nf1 then ⟨[], e0.err⟩                          -- ErrorSeq(err0)
  else
    -- a member that does not know the repository has nothing to list; one that delivered items and THEN
    -- failed has failed, whatever the error (fix F34)
    let err0 := if nf0 && e0.items.isEmpty then none else e0.err
    let err1 := if nf1 && e1.items.isEmpty then none else e1.err
    let err := match err0 with
      | some e => some e
      | none => err1
    ⟨compactBy cmp (sortBy cmp (e0.items ++ e1.items)), err⟩

end sort

/-- One call of the consumer's `yield`. -/
inductive Ev (α : Type) where
  | item (x : α)
  | error (cls : String)
  deriving DecidableEq, Repr

/-- The calls a returned `Seq` would make to a consumer that never declines:
the items, then the error if any (SliceSeq, ErrorSeq and the final closure of
mergeIter all have this shape). -/
def Events.calls {α} (e : Events α) : List (Ev α) :=
  e.items.map .item ++ (match e.err with | some c => [.error c] | none => [])

/-- The calls actually made to a consumer that answers `accept hist` to the call
that completes the history `hist` (most recent first): iteration stops at the
first declined call. -/
def feed {α} (accept : List (Ev α) → Bool) (hist : List (Ev α)) : List (Ev α) → List (Ev α)
  | [] => []
  | e :: rest => e :: (if accept (e :: hist) then feed accept (e :: hist) rest else [])

/-! ## Composite upload IDs -/

/-- base64url and the JSON coding of `[]string`, abstract. -/
structure Codec where
  b64enc  : Bytes → Bytes
  b64dec  : Bytes → Option Bytes
  jsonEnc : List Bytes → Bytes
  jsonDec : Bytes → Option (List Bytes)

/-- `unifiedBlobWriter.ID`. -/
def joinID (C : Codec) (id0 id1 : Bytes) : Bytes := C.b64enc (C.jsonEnc [id0, id1])

/-- The head of `PushBlobChunkedResume`: `none` is `malformed ID`. -/
def splitID (C : Codec) (id : Bytes) : Option (Bytes × Bytes) :=
  match C.b64dec id with
  | none => none
  | some data =>
    match C.jsonDec data with
    | some [a, b] => some (a, b)
    | _ => none

/-! ## Replication over two copies of any deterministic machine -/

structure Machine where
  σ    : Type
  Op   : Type
  Out  : Type
  step : σ → Op → σ × Out

/-- A history of fanned-out writes: each element is the pair of calls the
unifier makes (one per member). -/
def runPair (M : Machine) (s : M.σ × M.σ) : List (M.Op × M.Op) → M.σ × M.σ
  | [] => s
  | (o0, o1) :: rest => runPair M ((M.step s.1 o0).1, (M.step s.2 o1).1) rest

/-! ## The unifier over two `ocimem` models -/


/-- The state: the two members, and the live `unifiedBlobWriter` objects the
client holds (key `repo\0id`, value: the `size` field). -/
structure UState where
  m0 : Mem.State
  m1 : Mem.State
  writers : List (Bytes × Int)
  deriving DecidableEq, Repr

def uinit (immutable : Bool) : UState := ⟨Mem.init immutable, Mem.init immutable, []⟩

/-- What the unifier returns for a call. `listErr` is a listing that delivered
items and then an error (impossible with `ocimem` members, which fail before the
first item; kept so that `step` transcribes the code). -/
inductive UOut where
  | out (o : Mem.Out)
  | listErr (n : Nat) (cls : String)
  deriving DecidableEq, Repr

def ofOut : Mem.Out → Res Mem.Out
  | .err c => .err c
  | o => .ok o

def toOut : Res Mem.Out → Mem.Out
  | .ok o => o
  | .err c => .err c

/-- `Descriptor().Digest` of an answer. -/
def outDigest : Mem.Out → Bytes
  | .okRead d _ => d.digest
  | .okDesc d => d.digest
  | _ => []

def wkey (r id : Bytes) : Bytes := r ++ [0] ++ id

def listEvents : Mem.Out → Events Bytes
  | .okList items => ⟨items, none⟩
  | .err c => ⟨[], some c⟩
  | _ => ⟨[], some "ERR"⟩

def descEvents : Mem.Out → Events Mem.Desc
  | .okDescs items => ⟨items, none⟩
  | .err c => ⟨[], some c⟩
  | _ => ⟨[], some "ERR"⟩

def cmpDesc (a b : Mem.Desc) : Ordering := compare a.digest b.digest

def cmpBytes (a b : Bytes) : Ordering := compare a b

/-- How an operation on the unifier is turned into the pair of member
operations (`none`: the operation never reaches the members, e.g. a malformed
composite ID). Reads go to both as they are. -/
def fan (C : Codec) : Mem.Op → Option (Mem.Op × Mem.Op)
  | .resume r id off => (splitID C id).map fun (a, b) => (.resume r a off, .resume r b off)
  | .wWrite r id d => (splitID C id).map fun (a, b) => (.wWrite r a d, .wWrite r b d)
  | .wSize r id => (splitID C id).map fun (a, b) => (.wSize r a, .wSize r b)
  | .wCancel r id => (splitID C id).map fun (a, b) => (.wCancel r a, .wCancel r b)
  | .wCommit r id dg => (splitID C id).map fun (a, b) => (.wCommit r a dg, .wCommit r b dg)
  | op => some (op, op)

section
variable (H : Bytes → Bytes) (C : Codec)

/-- `first0`: under the concurrent policy, whether member 0 is the first to answer. -/
def step (pol : Policy) (first0 : Bool) (s : UState) (op : Mem.Op) : UState × UOut :=
  match fan C op with
  | none =>
    -- malformed composite ID: `resume` fails before any member call; writer methods
    -- have no object to be called on.
    match op with
    | .resume .. => (s, .out (.err "ERR"))
    | _ => (s, .out (.err "NO-WRITER"))
  | some (op0, op1) =>
    let (s0', o0) := Mem.step H s.m0 op0
    let (s1', o1) := Mem.step H s.m1 op1
    let a0 := ofOut o0
    let a1 := ofOut o1
    let both : UState := { s with m0 := s0', m1 := s1' }
    match op with
    | .getBlob .. | .getBlobRange .. | .getManifest .. | .resolveBlob .. | .resolveManifest .. =>
      -- reads leave ocimem unchanged, so it does not matter that the sequential
      -- policy skips member 1 after a success
      let r := match pol with
        | .sequential => readFirst a0 a1
        | .concurrent => if first0 then readFirst a0 a1 else readFirst a1 a0
      (s, .out (toOut r))
    | .getTag .. | .resolveTag .. => (s, .out (toOut (tagRule outDigest a0 a1)))
    | .repositories .. | .tags .. =>
      let ev := mergeIter cmpBytes (listEvents o0) (listEvents o1)
      (s, match ev.err with
        | none => .out (.okList ev.items)
        | some c => if ev.items.isEmpty then .out (.err c) else .listErr ev.items.length c)
    | .referrers .. =>
      let ev := mergeIter cmpDesc (descEvents o0) (descEvents o1)
      (s, match ev.err with
        | none => .out (.okDescs ev.items)
        | some c => if ev.items.isEmpty then .out (.err c) else .listErr ev.items.length c)
    | .pushBlob .. | .pushManifest .. => (both, .out (toOut (eqOk a0 a1)))
    | .mount .. | .deleteBlob .. | .deleteManifest .. | .deleteTag .. =>
      (both, .out (toOut (bothResults a0 a1)))
    | .pushChunked r =>
      match o0, o1 with
      | .okWriter id0, .okWriter id1 =>
        let id := joinID C id0 id1
        let size := match (Mem.step H s0' (.wSize r id0)).2 with | .okN n => n | _ => 0
        ({ both with writers := Mem.ainsert (wkey r id) size both.writers }, .out (.okWriter id))
      | _, _ => (both, .out (toOut (bothResults a0 a1)))
    | .resume r _ _ =>
      match o0, o1 with
      | .okWriter id0, .okWriter id1 =>
        let size0 := match (Mem.step H s0' (.wSize r id0)).2 with | .okN n => n | _ => 0
        let size1 := match (Mem.step H s1' (.wSize r id1)).2 with | .okN n => n | _ => 0
        if size0 ≠ size1 then (both, .out (.err "ERR"))     -- "registries do not agree on upload size"
        else
          let id := joinID C id0 id1
          ({ both with writers := Mem.ainsert (wkey r id) size0 both.writers }, .out (.okWriter id))
      | _, _ => (both, .out (toOut (bothResults a0 a1)))
    | .wWrite r id data =>
      match Mem.alookup (wkey r id) s.writers with
      | none => (s, .out (.err "NO-WRITER"))
      | some size =>
        match bothResults a0 a1 with
        | .err c => (both, .out (.err c))
        | .ok _ =>
          ({ both with writers := Mem.ainsert (wkey r id) (size + data.length) both.writers },
           .out (.okN data.length))
    | .wSize r id =>
      match Mem.alookup (wkey r id) s.writers with
      | none => (s, .out (.err "NO-WRITER"))
      | some size => (s, .out (.okN size))
    | .wCancel r id | .wCommit r id _ =>
      match Mem.alookup (wkey r id) s.writers with
      | none => (s, .out (.err "NO-WRITER"))
      | some _ => (both, .out (toOut (bothResults a0 a1)))

def run (pol : Policy) (s : UState) : List Mem.Op → UState
  | [] => s
  | op :: rest => run pol (step H C pol true s op).1 rest

end

/-! ## What can be observed of a member through the Interface -/

/-- Sorted keys of an association list. -/
def sortedKeys {β} (m : List (Bytes × β)) : List Bytes := sortBy cmpBytes (m.map (·.1))

def obsRepo (rp : Mem.Repo) : List (Bytes × Option Mem.Desc) × List (Bytes × Option (Bytes × Bytes × Bytes)) × List (Bytes × Option (Bytes × Bytes)) :=
  ((sortedKeys rp.tags).map fun k => (k, Mem.alookup k rp.tags),
   (sortedKeys rp.manifests).map fun k => (k, (Mem.alookup k rp.manifests).map fun b => (b.mediaType, b.data, b.subject)),
   (sortedKeys rp.blobs).map fun k => (k, (Mem.alookup k rp.blobs).map fun b => (b.mediaType, b.data)))

/-- Everything reads and listings depend on: repositories, tags, manifests,
blobs (not uploads in progress, not the counter for fresh upload IDs). -/
def obs (s : Mem.State) :=
  (s.immutableTags, (sortedKeys s.repos).map fun k => (k, (Mem.alookup k s.repos).map obsRepo))

end OciModel.Unify
