/-
Model of the RESPONSE half of the HTTP codec: what `ociserver` writes for a successful
backend call (`serverResp`) and what `ociclient` makes of a response (`clientDecode`).
The request half is `OciModel/ReqCodec.lean`.

Every definition mirrors one Go function; the Go file:line is in its comment (paths relative
to `ociregistry/`). Core Lean only: this file is linked into the `ocimodel` driver.

Conventions and what is NOT modelled here (standard library, trusted):
* a response is `status`, the headers as `Header.Get` sees them (canonical names, first value),
  `contentLength` as `net/http` reports `resp.ContentLength` (`-1` = unknown) and the body bytes;
  header transport by `net/http` is the identity (true for values without control characters and
  without leading/trailing white space);
* `status = 0` stands for "the transport returned an error instead of a response";
* `encoding/json` DEcoding is a parameter (`dec…`); ENcoding of strings (`jsonStr`) is modelled
  concretely for bytes < 0x80 and passes bytes ≥ 0x80 through (Go does the same for valid UTF-8
  other than U+2028/U+2029);
* `net/url`: `url.QueryEscape` / `url.ParseQuery` are modelled concretely (`queryEscape`,
  `parseQuery`); resolving a `Location` / `Link` reference against the request URL is the
  parameter `resolve` (`none` = `url.Parse` failed);
* the server options `LocationsForDescriptor` / `LocationForUploadID` are nil (the default);
* error RESPONSES (what `WriteError` writes, what `makeError` reads) are `OciModel/ErrCodec.lean`
  (C07); here a handler error is `SOut.err`, a non-2xx answer is `CErr.http status`.
-/
import OciModel.Base
import OciModel.Ref
import OciModel.ReqCodec
import OciModel.B64Url
import OciModel.BlobReader
import OciModel.Pager

namespace OciModel.RespCodec
open OciModel OciModel.Ref OciModel.ReqCodec

/-! ## Text helpers -/

/-- `textproto.TrimString`'s notion of space -/
def isASCIISpace (c : UInt8) : Bool := c == 32 || c == 9 || c == 10 || c == 13

/-- `textproto.TrimString` -/
def trimString (s : Bytes) : Bytes :=
  ((s.dropWhile isASCIISpace).reverse.dropWhile isASCIISpace).reverse

/-- `strings.Cut(s, sep)` for a one-byte separator: split at the FIRST occurrence. -/
def cutByte (sep : UInt8) (s : Bytes) : Option (Bytes × Bytes) :=
  match s.dropWhile (· != sep) with
  | [] => none
  | _ :: after => some (s.takeWhile (· != sep), after)

/-- `strings.Join(parts, sep)` -/
def join (sep : Bytes) : List Bytes → Bytes
  | [] => []
  | [p] => p
  | p :: ps => p ++ sep ++ join sep ps

def maxI64 : Int := 9223372036854775807
def minI64 : Int := -9223372036854775808

/-- two's-complement wrap of `i + 1` computed in an `int64` -/
def succ64 (i : Int) : Int := if i = maxI64 then minI64 else i + 1

/-! ## Headers -/

abbrev Header := List (Bytes × Bytes)

/-- `http.Header.Get`: first value, empty when absent. Names are in `textproto.CanonicalMIMEHeaderKey`
form, which is how `http.Header.Set`/`Get` store and look them up. -/
def hget (h : Header) (k : Bytes) : Bytes := qget h k

def hContentType : Bytes := strBytes "Content-Type"
def hContentLength : Bytes := strBytes "Content-Length"
def hContentRange : Bytes := strBytes "Content-Range"
def hDigest : Bytes := strBytes "Docker-Content-Digest"
def hAcceptRanges : Bytes := strBytes "Accept-Ranges"
def hLocation : Bytes := strBytes "Location"
def hRange : Bytes := strBytes "Range"
def hChunkMin : Bytes := strBytes "Oci-Chunk-Min-Length"        -- `OCI-Chunk-Min-Length`
def hSubject : Bytes := strBytes "Oci-Subject"                  -- `OCI-Subject`
def hLink : Bytes := strBytes "Link"
def hAPIVersion : Bytes := strBytes "Docker-Distribution-Api-Version"   -- `Docker-Distribution-API-Version`

def octetStream : Bytes := strBytes "application/octet-stream"
def mtImageManifest : Bytes := strBytes "application/vnd.oci.image.manifest.v1+json"
def mtImageIndex : Bytes := strBytes "application/vnd.oci.image.index.v1+json"

structure Desc where
  mediaType : Bytes := []
  digest    : Bytes := []
  size      : Int := 0
  deriving DecidableEq, Repr

structure Resp where
  status        : Nat
  hdr           : Header := []
  contentLength : Int := -1
  body          : Bytes := []
  deriving DecidableEq, Repr

/-- `net/http` (`parseContentLength`): digits only, fits an int64. -/
def parseContentLength (s : Bytes) : Option Int :=
  if s ≠ [] ∧ s.all isDigit then atoi s else none

/-- What a client sees of a response the server wrote with these headers: `resp.ContentLength`
is the value of the Content-Length header (`-1` when there is none). -/
def mkResp (status : Nat) (hdr : Header) (body : Bytes := []) : Resp :=
  { status, hdr, body,
    contentLength := match parseContentLength (hget hdr hContentLength) with
      | some n => n
      | none => -1 }

/-! ## The `Range` request header (blob GET) -/

def sBytesEq : Bytes := strBytes "bytes="

/-- ociclient/reader.go:50-54 (`GetBlobRange`): the header for `[o0, o1)`, `o1 < 0` = to the end.
(`o0 = 0 ∧ o1 < 0` sends a plain GET instead: reader.go:38.) -/
def cliRangeHdr (o0 o1 : Int) : Bytes :=
  if o1 < 0 then sBytesEq ++ itoa o0 ++ [cDash]
  else sBytesEq ++ itoa o0 ++ [cDash] ++ itoa (o1 - 1)

/-- ociserver/range.go:51-82: one `start-end` element; `end = -1` is "to the end of the blob",
otherwise `end` is exclusive. -/
def parseOneRange (ra : Bytes) : Option (Int × Int) :=
  match cutByte cDash ra with
  | none => none                                   -- range.go:52 "invalid range"
  | some (st, en) =>
    let st := trimString st
    let en := trimString en
    if st = [] then none                           -- range.go:57-66 suffix ranges: refused either way
    else match atoi st with
      | none => none
      | some i =>
        if i < 0 then none                         -- range.go:69
        else if en = [] then some (i, -1)          -- range.go:73-75
        else match atoi en with
          | none => none
          | some j => if i > j then none else some (i, succ64 j)   -- range.go:77-81

/-- ociserver/range.go:37-87 `parseRange`: `none` = error (the handler answers 416). -/
def srvParseRange (s : Bytes) : Option (List (Int × Int)) :=
  if s = [] then some []                           -- range.go:38
  else match cutPrefix sBytesEq s with
    | none => none                                 -- range.go:42
    | some rest =>
      (((splitOn 44 rest).map trimString).filter (· ≠ [])).mapM parseOneRange

/-- The backend call `handleBlobGet` makes (ociserver/reader.go:65-86). -/
inductive BlobCall where
  | full                       -- GetBlob
  | range (s e : Int)          -- GetBlobRange(start, end)
  deriving DecidableEq, Repr

def blobCall (range : Bytes) : Option BlobCall :=
  match srvParseRange range with
  | none => none                                   -- reader.go:66-68  416
  | some [] => some .full
  | some [(s, e)] => some (.range s e)
  | some _ => none                                 -- reader.go:111-113 416 "only a single range is supported"

/-! ## `Content-Range` of a 206 answer -/

/-- ociserver/reader.go:105: `bytes %d-%d/%d` of start, end-1, size -/
def srvContentRange (s e size : Int) : Bytes :=
  strBytes "bytes " ++ itoa s ++ [cDash] ++ itoa (e - 1) ++ [cSlash] ++ itoa size

/-! ## `Range` of an upload answer (`ocirequest.RangeString` / `ParseRange` on text) -/

/-- internal/ocirequest/request.go:446-452 -/
def rangeStringB (s e : Int) : Bytes :=
  let (a, b) := rangeString s e
  itoa a ++ [cDash] ++ itoa b

/-- internal/ocirequest/request.go:424-441 -/
def parseRangeB (s : Bytes) : Option (Int × Int) :=
  match cutByte cDash s with
  | none => none
  | some (a, b) =>
    match atoi a, atoi b with
    | some p0, some p1 => some (parseRange p0 p1)
    | _, _ => none

/-! ## `net/url`: query escaping -/

/-- bytes `url.QueryEscape` leaves alone -/
def isUnreserved (c : UInt8) : Bool := isAlnum c || c == 45 || c == 95 || c == 46 || c == 126

def hexUpper (n : Nat) : UInt8 := if n < 10 then UInt8.ofNat (48 + n) else UInt8.ofNat (55 + n)

def escapeByte (c : UInt8) : Bytes :=
  if isUnreserved c then [c]
  else if c == 32 then [43]
  else [37, hexUpper (c.toNat / 16), hexUpper (c.toNat % 16)]

/-- `url.QueryEscape` -/
def queryEscape (s : Bytes) : Bytes := s.flatMap escapeByte

def unhex (c : UInt8) : Option Nat :=
  if 48 ≤ c ∧ c ≤ 57 then some (c.toNat - 48)
  else if 97 ≤ c ∧ c ≤ 102 then some (c.toNat - 87)
  else if 65 ≤ c ∧ c ≤ 70 then some (c.toNat - 55)
  else none

/-- `url.QueryUnescape` -/
def queryUnescape : Bytes → Option Bytes
  | [] => some []
  | c :: rest =>
    if c = 37 then
      match rest with
      | a :: b :: rest' =>
        match unhex a, unhex b, queryUnescape rest' with
        | some x, some y, some r => some (UInt8.ofNat (x * 16 + y) :: r)
        | _, _, _ => none
      | _ => none
    else if c = 43 then (queryUnescape rest).map (32 :: ·)
    else (queryUnescape rest).map (c :: ·)

/-- stable insertion by key (for `url.Values.Encode`, which sorts the keys) -/
def insertKey (x : Bytes × Bytes) : List (Bytes × Bytes) → List (Bytes × Bytes)
  | [] => [x]
  | y :: ys => if compare x.1 y.1 != .gt then x :: y :: ys else y :: insertKey x ys

def sortKeys (ps : List (Bytes × Bytes)) : List (Bytes × Bytes) := ps.foldr insertKey []

/-- `url.Values.Encode` of the pairs in `ParseQuery` order -/
def encodeQuery (ps : List (Bytes × Bytes)) : Bytes :=
  join [38] ((sortKeys ps).map fun kv => queryEscape kv.1 ++ [61] ++ queryEscape kv.2)

/-- `url.ParseQuery` (`none` = it reports an error) -/
def parseQuery (s : Bytes) : Option (List (Bytes × Bytes)) :=
  ((splitOn 38 s).filter (· ≠ [])).mapM fun piece =>
    if piece.contains 59 then none                      -- "invalid semicolon separator in query"
    else
      let (k, v) := match cutByte 61 piece with
        | some (k, v) => (k, v)
        | none => (piece, [])
      match queryUnescape k, queryUnescape v with
      | some k, some v => some (k, v)
      | _, _ => none

/-- `url.Values.Set` -/
def querySet (ps : List (Bytes × Bytes)) (k v : Bytes) : List (Bytes × Bytes) :=
  ps.filter (·.1 ≠ k) ++ [(k, v)]

/-! ## `encoding/json`: encoding -/

def hexLower (n : Nat) : UInt8 := if n < 10 then UInt8.ofNat (48 + n) else UInt8.ofNat (87 + n)

/-- encoding/json `appendString` (escapeHTML on), one byte -/
def jsonChar (c : UInt8) : Bytes :=
  if c == 34 then [92, 34]
  else if c == 92 then [92, 92]
  else if c == 8 then [92, 98]
  else if c == 12 then [92, 102]
  else if c == 10 then [92, 110]
  else if c == 13 then [92, 114]
  else if c == 9 then [92, 116]
  else if c < 32 || c == 60 || c == 62 || c == 38 then
    [92, 117, 48, 48, hexLower (c.toNat / 16), hexLower (c.toNat % 16)]
  else [c]

def jsonStr (s : Bytes) : Bytes := [34] ++ s.flatMap jsonChar ++ [34]

/-- a `[]string`: `null` for a nil slice (nothing was appended) -/
def jsonStrList : List Bytes → Bytes
  | [] => strBytes "null"
  | l => [91] ++ join [44] (l.map jsonStr) ++ [93]

/-- ociserver/lister.go:39-42, 49-52 -/
def encTags (repo : Bytes) (tags : List Bytes) : Bytes :=
  strBytes "{\"name\":" ++ jsonStr repo ++ strBytes ",\"tags\":" ++ jsonStrList tags ++ [125]

/-- ociserver/lister.go:35-37, 67-69 -/
def encCatalog (repos : List Bytes) : Bytes :=
  strBytes "{\"repositories\":" ++ jsonStrList repos ++ [125]

/-- an `ocispec.Descriptor` with only the three mandatory fields set -/
def jsonDesc (d : Desc) : Bytes :=
  strBytes "{\"mediaType\":" ++ jsonStr d.mediaType ++ strBytes ",\"digest\":" ++ jsonStr d.digest ++
    strBytes ",\"size\":" ++ itoa d.size ++ [125]

/-- ociserver/lister.go:88-91, 107 (`ocispec.Index`) -/
def encIndex (ds : List Desc) : Bytes :=
  strBytes "{\"schemaVersion\":2,\"mediaType\":\"application/vnd.oci.image.index.v1+json\",\"manifests\":" ++
    (match ds with
     | [] => strBytes "null"
     | l => [91] ++ join [44] (l.map jsonDesc) ++ [93]) ++ [125]

/-! ## Server -/

structure SrvOpts where
  disableReferrers  : Bool := false     -- DisableReferrersAPI
  disableSinglePost : Bool := false     -- DisableSinglePostUpload
  omitDigest        : Bool := false     -- OmitDigestFromTagGetResponse
  omitLink          : Bool := false     -- OmitLinkHeaderFromResponses
  maxListPageSize   : Int := 0          -- MaxListPageSize
  deriving DecidableEq, Repr

/-- What the handler reads from the request besides the classified `Request`. -/
structure SrvReq where
  r           : Request
  range       : Bytes := []                 -- `Range` header (blob GET)
  contentType : Bytes := []                 -- `Content-Type` header (manifest PUT)
  body        : Bytes := []                 -- manifest PUT
  /-- manifest PUT: `json.Unmarshal(body, &struct{Subject *Descriptor})`: `none` = error,
  `some none` = no subject, `some (some d)` = the subject's digest -/
  subject     : Option (Option Bytes) := some none
  path        : Bytes := []                 -- `req.URL.Path` (list requests)
  query       : List (Bytes × Bytes) := [] -- `req.URL.Query()` (list requests)
  deriving Repr

/-- A successful backend answer. -/
inductive BRes where
  | desc   (d : Desc)                                   -- Resolve*, MountBlob, PushBlob, PushManifest, Commit
  | reader (d : Desc) (content : Bytes)                 -- GetBlob, GetBlobRange, GetManifest, GetTag
  | writer (id : Bytes) (size : Int) (chunkSize : Int)  -- PushBlobChunked, PushBlobChunkedResume (ID, Size, ChunkSize)
  | commit (id : Bytes) (d : Desc)                      -- PushBlobChunkedResume then Commit
  | unit                                                -- Delete*
  | items  (l : List Bytes)                             -- everything the Tags / Repositories iterator yields
  | descs  (l : List Desc)                              -- everything the Referrers iterator yields
  deriving DecidableEq, Repr

inductive SErr where
  | range416           -- withHTTPCode(416, …)
  | pageTooLarge       -- UNSUPPORTED "query parameter n is too large"
  | referrersDisabled  -- withHTTPCode(404, …)
  | digestInvalid      -- ErrDigestInvalid (manifest PUT by digest)
  | badManifestJSON    -- "invalid manifest JSON" (500)
  | shape              -- the backend answer has not the type of the call the handler made (impossible in Go)
  deriving DecidableEq, Repr

inductive SOut where
  | resp (r : Resp)
  | err (e : SErr)     -- the handler returned an error: `WriteError` takes over (C07)
  | panic              -- Go would panic
  deriving DecidableEq, Repr

/-- ociserver/writer.go:223-230 `locationForUploadID`: `MustConstruct` of the upload-info
request, which panics when the result does not parse back (empty or non-UTF-8 upload ID). -/
def locationForUploadID (repo id : Bytes) : Option Bytes :=
  let rq : Request := { kind := .blobUploadInfo, repo := repo, uploadID := id }
  let (m, p, q) := construct B64Url.encode rq
  match parse B64Url.decode B64Url.validUTF8 m p (qget q) with
  | .ok _ => some p
  | .error _ => none

/-- ociserver/registry.go:216-234 `setLocationHeader` with `LocationsForDescriptor == nil` -/
def locationHeaders (loc : Bytes) (d : Desc) : Header := [(hLocation, loc), (hDigest, d.digest)]

/-- ociserver/reader.go:27-38 -/
def handleBlobHead (b : BRes) : SOut :=
  match b with
  | .desc d => .resp (mkResp 200 [(hContentLength, itoa d.size), (hDigest, d.digest), (hAcceptRanges, strBytes "bytes")])
  | _ => .err .shape

/-- ociserver/reader.go:40-114 (`LocationsForDescriptor == nil`) -/
def handleBlobGet (q : SrvReq) (b : BRes) : SOut :=
  match blobCall q.range with
  | none => .err .range416
  | some .full =>                                                     -- reader.go:70-83
    match b with
    | .reader d content =>
      .resp (mkResp 200 [(hContentType, d.mediaType), (hContentLength, itoa d.size), (hDigest, q.r.digest)] content)
    | _ => .err .shape
  | some (.range s e) =>                                              -- reader.go:84-109
    match b with
    | .reader d content =>
      let e := if e = -1 ∨ e > d.size then d.size else e              -- reader.go:93-95
      if s > d.size then .err .range416                               -- reader.go:96-98
      else if e < s then .err .range416                               -- reader.go:99-101
      else .resp (mkResp 206 [(hContentType, d.mediaType), (hContentLength, itoa (e - s)), (hDigest, q.r.digest),
                              (hContentRange, srvContentRange s e d.size)] content)
    | _ => .err .shape

/-- ociserver/reader.go:116-138 -/
def handleManifestGet (o : SrvOpts) (b : BRes) : SOut :=
  match b with
  | .reader d content =>
    .resp (mkResp 200 ((if !o.omitDigest then [(hDigest, d.digest)] else []) ++
      [(hContentType, d.mediaType), (hContentLength, itoa d.size)]) content)
  | _ => .err .shape

/-- ociserver/reader.go:140-162 -/
def handleManifestHead (o : SrvOpts) (q : SrvReq) (b : BRes) : SOut :=
  match b with
  | .desc d =>
    .resp (mkResp 200 ((if !o.omitDigest ∨ q.r.tag ≠ [] then [(hDigest, d.digest)] else []) ++
      [(hContentType, d.mediaType), (hContentLength, itoa d.size)]))
  | _ => .err .shape

/-- ociserver/writer.go:54-71 -/
def handleBlobStartUpload (q : SrvReq) (b : BRes) : SOut :=
  match b with
  | .writer id _ chunkSize =>
    match locationForUploadID q.r.repo id with
    | none => .panic
    | some loc => .resp (mkResp 202 [(hLocation, loc), (hRange, strBytes "0-0"), (hChunkMin, itoa chunkSize)])
  | _ => .err .shape

/-- ociserver/writer.go:32-52 -/
def handleBlobUploadBlob (o : SrvOpts) (q : SrvReq) (b : BRes) : SOut :=
  if o.disableSinglePost then handleBlobStartUpload q b
  else match b with
    | .desc d => .resp (mkResp 201 (locationHeaders (sV2Slash ++ q.r.repo ++ strBytes "/blobs/" ++ d.digest) d))
    | _ => .err .shape

/-- ociserver/writer.go:73-87 -/
def handleBlobUploadInfo (q : SrvReq) (b : BRes) : SOut :=
  match b with
  | .writer id size _ =>
    match locationForUploadID q.r.repo id with
    | none => .panic
    | some loc => .resp (mkResp 204 [(hLocation, loc), (hRange, rangeStringB 0 size)])
  | _ => .err .shape

/-- ociserver/writer.go:89-113 (after the body was copied and the writer closed) -/
def handleBlobUploadChunk (q : SrvReq) (b : BRes) : SOut :=
  match b with
  | .writer id size _ =>
    match locationForUploadID q.r.repo id with
    | none => .panic
    | some loc => .resp (mkResp 202 [(hLocation, loc), (hRange, rangeStringB 0 size)])
  | _ => .err .shape

/-- ociserver/writer.go:115-152 -/
def handleBlobCompleteUpload (q : SrvReq) (b : BRes) : SOut :=
  match b with
  | .commit _ d => .resp (mkResp 201 (locationHeaders (sV2Slash ++ q.r.repo ++ strBytes "/blobs/" ++ d.digest) d))
  | _ => .err .shape

/-- ociserver/writer.go:154-164 -/
def handleBlobMount (q : SrvReq) (b : BRes) : SOut :=
  match b with
  | .desc d => .resp (mkResp 201 (locationHeaders (sV2Slash ++ q.r.repo ++ strBytes "/blobs/" ++ q.r.digest) d))
  | _ => .err .shape

/-- ociserver/writer.go:166-203; `H` is `digest.FromBytes`. The backend is asked first; the subject
is looked for only once the push has succeeded, and a body that does not decode simply has none
(fix F25: the server used to refuse such a body itself with an un-coded 500). -/
def handleManifestPut (H : Bytes → Bytes) (q : SrvReq) (b : BRes) : SOut :=
  if q.r.tag = [] ∧ q.r.digest ≠ H q.body then .err .digestInvalid        -- writer.go:177-185
  else
    match b with
    | .desc d =>
      -- writer.go `subjectFromManifest`, its error ignored
      let subj : Option Bytes :=
        if q.contentType = mtImageManifest ∨ q.contentType = mtImageIndex then
          (match q.subject with | some s => s | none => none)
        else none
      .resp (mkResp 201 (locationHeaders (sV2Slash ++ q.r.repo ++ strBytes "/manifests/" ++ d.digest) d ++
        (match subj with | some s => [(hSubject, s)] | none => [])))
    | _ => .err .shape

/-- ociserver/deleter.go:25-45 -/
def handleDelete (b : BRes) : SOut :=
  match b with
  | .unit => .resp (mkResp 202 [])
  | _ => .err .shape

/-- ociserver/lister.go:118-150 `nextListResults`: the page and whether it was truncated. -/
def nextListResults (o : SrvOpts) (listN : Int) (items : List Bytes) : Except SErr (List Bytes × Bool) :=
  if o.maxListPageSize > 0 ∧ listN > o.maxListPageSize then .error .pageTooLarge      -- lister.go:119-121
  else if listN > 0 then .ok (items.take listN.toNat, decide (listN.toNat < items.length))  -- lister.go:133-136
  else .ok (items, false)

/-- ociserver/lister.go:160-170 `makeNextLink`. The path is printed unescaped: a path the router
accepted consists of bytes `URL.String` leaves alone. -/
def makeNextLink (q : SrvReq) (startAfter : Bytes) : Bytes :=
  [60] ++ q.path ++ [63] ++ encodeQuery (querySet q.query qLast startAfter) ++ strBytes ">;rel=\"next\""

/-- The list handlers set no Content-Type (`net/http` adds a sniffed `text/plain; charset=utf-8` when it
writes the body; the client does not read it). -/
def listHeaders (o : SrvOpts) (q : SrvReq) (page : List Bytes) (truncated : Bool) (msg : Bytes) : Header :=
  (match truncated && !o.omitLink, page.getLast? with                                  -- lister.go:146-148
   | true, some l => [(hLink, makeNextLink q l)]
   | _, _ => []) ++ [(hContentLength, itoa msg.length)]

/-- ociserver/lister.go:44-60 -/
def handleTagsList (o : SrvOpts) (q : SrvReq) (b : BRes) : SOut :=
  match b with
  | .items l =>
    match nextListResults o q.r.listN l with
    | .error e => .err e
    | .ok (page, truncated) =>
      let msg := encTags q.r.repo page
      .resp (mkResp 200 (listHeaders o q page truncated msg) msg)
  | _ => .err .shape

/-- ociserver/lister.go:62-80 -/
def handleCatalogList (o : SrvOpts) (q : SrvReq) (b : BRes) : SOut :=
  match b with
  | .items l =>
    match nextListResults o q.r.listN l with
    | .error e => .err e
    | .ok (page, truncated) =>
      let msg := encCatalog page
      .resp (mkResp 200 (listHeaders o q page truncated msg) msg)
  | _ => .err .shape

/-- ociserver/lister.go:83-116 -/
def handleReferrersList (o : SrvOpts) (b : BRes) : SOut :=
  if o.disableReferrers then .err .referrersDisabled
  else match b with
    | .descs l =>
      let msg := encIndex l
      .resp (mkResp 200 [(hContentLength, itoa msg.length), (hContentType, mtImageIndex)] msg)
    | _ => .err .shape

/-- ociserver/registry.go:161-179 (the handler table) and :211-214 (`handlePing`). -/
def serverResp (H : Bytes → Bytes) (o : SrvOpts) (q : SrvReq) (b : BRes) : SOut :=
  match q.r.kind with
  | .ping => .resp (mkResp 200 [(hAPIVersion, strBytes "registry/2.0")])
  | .blobGet => handleBlobGet q b
  | .blobHead => handleBlobHead b
  | .blobDelete => handleDelete b
  | .blobStartUpload => handleBlobStartUpload q b
  | .blobUploadBlob => handleBlobUploadBlob o q b
  | .blobMount => handleBlobMount q b
  | .blobUploadInfo => handleBlobUploadInfo q b
  | .blobUploadChunk => handleBlobUploadChunk q b
  | .blobCompleteUpload => handleBlobCompleteUpload q b
  | .manifestGet => handleManifestGet o b
  | .manifestHead => handleManifestHead o q b
  | .manifestPut => handleManifestPut H q b
  | .manifestDelete => handleDelete b
  | .tagsList => handleTagsList o q b
  | .referrersList => handleReferrersList o b
  | .catalogList => handleCatalogList o q b

/-! ## Client -/

inductive DescErr where
  | noContentRange          -- "no Content-Range in partial content response"
  | malformedContentRange   -- "malformed Content-Range"
  | unknownLength           -- "unknown content length"
  | badDigest               -- "bad digest … found in response"
  | noDigest                -- "no digest found in response"
  deriving DecidableEq, Repr

inductive CErr where
  | transport                      -- no response at all
  | http (status : Nat)            -- `makeError(resp)`: an `HTTPError` with this status (C07 decodes the body)
  | unexpectedStatus (status : Nat)
  | desc (e : DescErr)             -- `descriptorFromResponse` failed
  | noLocation | badLocation       -- `locationFromResponse` failed
  | badRange | rangeNotZero        -- upload-info `Range`
  | mountUnsupported               -- 202 to a mount: `ErrUnsupported`
  | internalNoDigest               -- "internal error: no digest available for non-tag request"
  | bodySizeMismatch               -- "body size mismatch"
  | badBody                        -- the JSON body does not decode
  | badLink                        -- "invalid Link header in response"
  | emptyMediaType                 -- PushManifest called with an empty media type (no request is made)
  | wrapped (e : CErr)             -- wrapped with `%v`: the cause is no longer visible to `errors.As`
  deriving DecidableEq, Repr

/-- ociclient/client.go:140-184 `descriptorFromResponse` -/
def descriptorFromResponse (resp : Resp) (knownDigest : Bytes) (requireSize requireDigest : Bool) :
    Except DescErr Desc :=
  let ct := hget resp.hdr hContentType
  let ct := if ct = [] then octetStream else ct                         -- client.go:141-144
  let size : Except DescErr Int :=
    if requireSize then                                                 -- client.go:146
      if resp.status = 206 then                                         -- client.go:147
        let cr := hget resp.hdr hContentRange
        if cr = [] then .error .noContentRange                          -- client.go:149-151
        else match cutLastSlash cr with
          | none => .error .malformedContentRange                       -- client.go:152-155
          | some (_, after) =>
            match atoi after with
            | none => .error .malformedContentRange                     -- client.go:156-159
            | some n => .ok n
      else if resp.contentLength < 0 then .error .unknownLength         -- client.go:162-164
      else .ok resp.contentLength
    else .ok 0
  match size with
  | .error e => .error e
  | .ok size =>
    let dg := hget resp.hdr hDigest
    if dg ≠ [] ∧ !isDigest dg then .error .badDigest                    -- client.go:169-172
    else if knownDigest ≠ [] ∧ !isDigest knownDigest then .error .badDigest  -- client.go: an ill-formed digest argument is refused (fix F32)
    else
      let dg := if knownDigest ≠ [] then knownDigest else dg              -- client.go: the digest asked for wins (fix F31)
      if requireDigest ∧ dg = [] then .error .noDigest                  -- client.go:176-178
      else .ok { mediaType := ct, digest := dg, size := size }

/-- ociclient/client.go:324-337 (`do`) and :274-279 (`doRequest`): `none` = the response is handed on. -/
def gate (ok : List Nat) (st : Nat) : Option CErr :=
  if st = 0 then some .transport
  else if (ok = [] ∧ st = 200) ∨ st ∈ ok then none
  else if st / 100 ≠ 2 then some (.http st)
  else some (.unexpectedStatus st)

/-- ociclient/client.go:343-353 `locationFromResponse` -/
def locationFromResponse (resolve : Bytes → Option Bytes) (resp : Resp) : Except CErr Bytes :=
  let loc := hget resp.hdr hLocation
  if loc = [] then .error .noLocation
  else match resolve loc with
    | none => .error .badLocation
    | some u => .ok u

/-- ociclient/writer.go:448-454 `chunkSizeFromResponse` -/
def chunkSizeFromResponse (resp : Resp) (chunkSize : Int) : Int :=
  match atoi (hget resp.hdr hChunkMin) with
  | some m => if m > chunkSize then m else chunkSize
  | none => chunkSize

/-- ociclient/writer.go:158 -/
def defaultChunkSize : Int := 65536

/-- ociclient/reader.go:133 -/
def inMemThreshold : Int := 131072

/-- `Digest.Algorithm().Hash()` (client.go:189) panics unless the digest has a `:` and a linked algorithm. -/
def digestHashable (dg : Bytes) : Bool :=
  match cutByte cColon dg with
  | none => false
  | some (alg, _) => alg == sha256 || alg == sha384 || alg == sha512

inductive CRes where
  | desc (d : Desc)
  | reader (d : Desc) (verify : Bool) (body : Bytes)   -- a `blobReader` over this body
  | writer (location : Bytes) (chunkSize : Int) (offset : Int)
  | unit
  | err (e : CErr)
  | panic
  deriving DecidableEq, Repr

/-- ociclient/client.go:186-199 `newBlobReader` / `newBlobReaderUnverified` -/
def newBlobReader (d : Desc) (verify : Bool) (body : Bytes) : CRes :=
  if digestHashable d.digest then .reader d verify body else .panic

/-- What the caller reads from a `reader` result (`blobReader.Read`, client.go:213-239): the model of
C01b, the body arriving in the given chunks. -/
def readAll (H : Bytes → Bytes) (d : Desc) (verify : Bool) (chunks : List Bytes) : BlobReader.Res :=
  -- a negative size (a `Content-Range` total the server made up) is exceeded by whatever arrives, even by nothing:
  -- since fix F36 the size check no longer waits for a read without error
  if d.size < 0 then .tooLong (chunks.headD [])
  else BlobReader.readAll H verify d.size.toNat d.digest [] chunks

/-- ociclient/reader.go:135-186 `read`: `r1` answers the GET, `r2` the HEAD that is sent when a tag GET
carries no digest and the manifest is too large to hash in memory. `H` is `digest.FromBytes`. -/
def clientRead (H : Bytes → Bytes) (kind : Kind) (known : Bytes) (r1 : Resp) (r2 : Option Resp) : CRes :=
  match gate [] r1.status with
  | some e => .err e
  | none =>
    match descriptorFromResponse r1 known true false with               -- reader.go:141
    | .error e => .err (.desc e)
    | .ok d =>
      if d.digest ≠ [] then newBlobReader d true r1.body
      else if kind ≠ .manifestGet then .err .internalNoDigest           -- reader.go:152-154
      else if d.size ≤ inMemThreshold then                              -- reader.go:160
        let data := r1.body.take (d.size + 1).toNat                     -- reader.go:161
        if (data.length : Int) ≠ d.size then .err .bodySizeMismatch     -- reader.go:165-167
        else newBlobReader { d with digest := H data } true data        -- reader.go:168-170
      else match r2 with                                                -- reader.go:171-183
        | none => .err .transport
        | some r2 =>
          match gate [] r2.status with
          | some e => .err e
          | none =>
            match descriptorFromResponse r2 [] true true with
            | .error e => .err (.desc e)
            | .ok d2 => newBlobReader d2 true r1.body

/-- ociclient/reader.go:94-105 `resolve` -/
def clientResolve (known : Bytes) (r : Resp) : CRes :=
  match gate [] r.status with
  | some e => .err e
  | none =>
    match descriptorFromResponse r known true true with
    | .error e => .err (.desc e)
    | .ok d => .desc d

/-- ociclient/reader.go:37-68 `GetBlobRange` after the request was sent (`o0 = 0 ∧ o1 < 0` is `GetBlob`) -/
def clientGetBlobRange (known : Bytes) (r : Resp) : CRes :=
  match gate [200, 206] r.status with
  | some e => .err e
  | none =>
    match descriptorFromResponse r known true false with
    | .error e => .err (.desc e)
    | .ok d => newBlobReader d false r.body

/-- ociclient/writer.go:37-65 `PushManifest`: `own` is the descriptor the client computed itself. -/
def clientPushManifest (own : Desc) (r : Resp) : CRes :=
  match gate [201] r.status with
  | some e => .err e
  | none => .desc own

/-- ociclient/writer.go:67-87 `MountBlob` -/
def clientMount (known : Bytes) (r : Resp) : CRes :=
  match gate [201, 202] r.status with
  | some e => .err e
  | none =>
    if r.status = 202 then .err .mountUnsupported                       -- writer.go:79-84
    else match descriptorFromResponse r known false true with           -- writer.go:86
      | .error e => .err (.desc e)
      | .ok d => .desc d

/-- ociclient/writer.go:89-153 `PushBlob`: the POST answer, then the PUT answer; `own` is the
caller's descriptor (returned unchanged); `putURL` receives the resolved location. -/
def clientPushBlob (resolve : Bytes → Option Bytes) (own : Desc) (r1 : Resp) (r2 : Option Resp) : CRes :=
  match gate [202] r1.status with
  | some e => .err e
  | none =>
    match locationFromResponse resolve r1 with
    | .error e => .err e
    | .ok _ =>
      match r2 with
      | none => .err .transport
      | some r2 =>
        match gate [201] r2.status with
        | some e => .err e
        | none => .desc own

/-- ociclient/writer.go:160-190 `PushBlobChunked` -/
def clientPushBlobChunked (resolve : Bytes → Option Bytes) (chunkSize : Int) (r : Resp) : CRes :=
  let chunkSize := if chunkSize ≤ 0 then defaultChunkSize else chunkSize
  match gate [202] r.status with
  | some e => .err e
  | none =>
    match locationFromResponse resolve r with
    | .error e => .err e
    | .ok loc => .writer loc (chunkSizeFromResponse r chunkSize) 0

/-- ociclient/writer.go:192-270 `PushBlobChunkedResume` with offset `-1` -/
def clientResumeAsk (resolve : Bytes → Option Bytes) (chunkSize : Int) (r : Resp) : CRes :=
  let chunkSize := if chunkSize ≤ 0 then defaultChunkSize else chunkSize
  match gate [204] r.status with
  | some e => .err e                                                    -- writer.go:220-226: returned as it is (fix F26; it used to be re-created with `%v`)
  | none =>
    match locationFromResponse resolve r with
    | .error e => .err (.wrapped e)                                     -- writer.go:224-227
    | .ok loc =>
      match parseRangeB (hget r.hdr hRange) with
      | none => .err .badRange                                          -- writer.go:229-232
      | some (p0, p1) =>
        if p0 ≠ 0 then .err .rangeNotZero                               -- writer.go:233-235
        else .writer loc (chunkSizeFromResponse r chunkSize) p1

/-- ociclient/writer.go:321-359 `flush`: PATCH (`commit = false`, expects 202) or the final PUT
(`commit = true`, expects 201); the result is the writer's new location. -/
def clientFlush (resolve : Bytes → Option Bytes) (commit : Bool) (r : Resp) : Except CErr Bytes :=
  match gate [if commit then 201 else 202] r.status with
  | some e => .error e
  | none =>
    match locationFromResponse resolve r with
    | .error e => .error (.wrapped e)                                   -- writer.go:350-353
    | .ok loc => .ok loc

/-- ociclient/writer.go:405-419 `Commit`: the descriptor is the client's own account. -/
def clientCommit (resolve : Bytes → Option Bytes) (size : Int) (digest : Bytes) (r : Resp) : CRes :=
  match clientFlush resolve true r with
  | .error e => .err e
  | .ok _ => .desc { mediaType := octetStream, digest := digest, size := size }

/-- ociclient/deleter.go:49-56 -/
def clientDelete (r : Resp) : CRes :=
  match gate [202] r.status with
  | some e => .err e
  | none => .unit

/-! ### Lists -/

/-- What `nextLink` (ociclient/lister.go:148-180) decides. -/
inductive Next where
  | viaLast (last : Bytes)          -- no Link header: the initial request with `last` set
  | viaLink (target : Bytes)        -- the text between `<` and `>`, to be resolved against the request URL
  | bad                             -- "invalid Link header in response"
  deriving DecidableEq, Repr

/-- ociclient/lister.go:148-180; `urlOK` says whether `URL.Parse` accepts the target. -/
def nextLink (urlOK : Bytes → Bool) (resp : Resp) (last : Bytes) : Next :=
  let link0 := hget resp.hdr hLink
  if link0 = [] then .viaLast last                                     -- lister.go:150-163
  else match link0 with
    | 60 :: link =>
      match cutByte 62 link with
      | none => .bad                                                    -- lister.go:171-173
      | some (target, _) => if urlOK target then .viaLink target else .bad   -- lister.go:175-178
    | _ => .bad                                                         -- lister.go:167-169

/-- One request of the pager (ociclient/lister.go:110-139): the items to yield and how to go on
(`none` = a short page ends the listing). `n` is the page size of the initial request. -/
def clientListPage (dec : Bytes → Option (List Bytes)) (urlOK : Bytes → Bool) (n : Int) (r : Resp) :
    Except CErr (List Bytes × Option Next) :=
  match gate [] r.status with
  | some e => .error e
  | none =>
    match dec r.body with
    | none => .error .badBody
    | some items =>
      if (items.length : Int) < n then .ok (items, none)                -- lister.go:127-133
      else match items.getLast? with
        | none => .ok (items, none)        -- unreachable: `n ≥ 1` (client.go:105-107)
        | some l => .ok (items, some (nextLink urlOK r l))   -- `.bad`: the items are yielded, then the error

/-- The answer as the abstract pager of C05/C18 sees it (`OciModel/Pager.lean`). -/
def listAnswer (dec : Bytes → Option (List Bytes)) (urlOK : Bytes → Bool) (r : Resp) : Pager.Answer :=
  match gate [] r.status with
  | some _ => .fail
  | none =>
    match dec r.body with
    | none => .fail
    | some items =>
      .page items (match nextLink urlOK r [] with
        | .viaLast _ => none
        | .viaLink _ => some true
        | .bad => some false)

/-- ociclient/lister.go:73-95 `Referrers` -/
def clientReferrers (decIndex : Bytes → Option (List Desc)) (r : Resp) : Except CErr (List Desc) :=
  match gate [] r.status with
  | some e => .error e
  | none =>
    match decIndex r.body with
    | none => .error .badBody
    | some ds => .ok ds

/-! ### The request a `Link` / `Location` leads to -/

/-- Split a request URI `path?query` (no fragment). -/
def splitTarget (t : Bytes) : Bytes × Bytes :=
  match cutByte 63 t with
  | some (p, q) => (p, q)
  | none => (t, [])

/-- What the server's router makes of a GET of `target` (a path-absolute reference whose path needs no
unescaping), e.g. the target of a `Link` header. -/
def classifyTarget (method target : Bytes) : Except PErr Request :=
  let (p, q) := splitTarget target
  match parseQuery q with
  | none => .error .badQuery
  | some ps => parse B64Url.decode B64Url.validUTF8 method p (qget ps)

/-- ociclient/writer.go:430-445 `urlWithDigest` on the request URI of the location. -/
def urlWithDigest (loc digest : Bytes) : Bytes :=
  let d := strBytes "digest=" ++ queryEscape digest
  match cutByte 63 loc with
  | none => loc ++ [63] ++ d
  | some (p, []) => p ++ [63] ++ d           -- `ForceQuery`
  | some (_, _) => loc ++ [38] ++ d

/-! ## One client call against scripted answers -/

inductive Call where
  | getBlob (digest : Bytes)
  | getBlobRange (digest : Bytes) (o0 o1 : Int)
  | getManifest (digest : Bytes)
  | getTag
  | resolveBlob (digest : Bytes)
  | resolveManifest (digest : Bytes)
  | resolveTag
  | pushManifest (own : Desc)
  | mountBlob (digest : Bytes)
  | pushBlob (own : Desc)
  | pushBlobChunked (chunkSize : Int)
  | resumeAsk (chunkSize : Int)
  | flushPatch
  | commit (size : Int) (digest : Bytes)
  | delete
  deriving DecidableEq, Repr

/-- The request kind of the (first) request of a call. -/
def Call.kind : Call → Kind
  | .getBlob _ | .getBlobRange .. => .blobGet
  | .getManifest _ | .getTag => .manifestGet
  | .resolveBlob _ => .blobHead
  | .resolveManifest _ | .resolveTag => .manifestHead
  | .pushManifest _ => .manifestPut
  | .mountBlob _ => .blobMount
  | .pushBlob _ | .pushBlobChunked _ => .blobStartUpload
  | .resumeAsk _ => .blobUploadInfo
  | .flushPatch => .blobUploadChunk
  | .commit .. => .blobCompleteUpload
  | .delete => .blobDelete

/-- `clientDecode`: the result of a client call given the answers to its requests, in order. -/
def clientDecode (H : Bytes → Bytes) (resolve : Bytes → Option Bytes) (c : Call) (rs : List Resp) : CRes :=
  match rs with
  | [] =>
    match c with
    | .pushManifest own => if own.mediaType = [] then .err .emptyMediaType else .err .transport   -- writer.go:38-40
    | _ => .err .transport
  | r1 :: rest =>
    match c with
    | .getBlob dg => clientRead H .blobGet dg r1 rest.head?
    | .getBlobRange dg o0 o1 =>
      if o0 = 0 ∧ o1 < 0 then clientRead H .blobGet dg r1 rest.head?    -- reader.go:38-40
      else clientGetBlobRange dg r1
    | .getManifest dg => clientRead H .manifestGet dg r1 rest.head?
    | .getTag => clientRead H .manifestGet [] r1 rest.head?
    | .resolveBlob dg => clientResolve dg r1
    | .resolveManifest dg => clientResolve dg r1
    | .resolveTag => clientResolve [] r1
    | .pushManifest own => if own.mediaType = [] then .err .emptyMediaType else clientPushManifest own r1
    | .mountBlob dg => clientMount dg r1
    | .pushBlob own => clientPushBlob resolve own r1 rest.head?
    | .pushBlobChunked cs => clientPushBlobChunked resolve cs r1
    | .resumeAsk cs => clientResumeAsk resolve cs r1
    | .flushPatch =>
      match clientFlush resolve false r1 with
      | .error e => .err e
      | .ok loc => .writer loc 0 0
    | .commit size dg => clientCommit resolve size dg r1
    | .delete => clientDelete r1

/-- How many requests the call makes against these answers (a call makes at most two). -/
def requestsMade (resolve : Bytes → Option Bytes) (c : Call) (rs : List Resp) : Nat :=
  let headFallback (known : Bytes) (kind : Kind) : Nat :=
    match rs with
    | [] => 1
    | r1 :: _ =>
      match gate [] r1.status, descriptorFromResponse r1 known true false with
      | none, .ok d => if d.digest = [] ∧ kind = .manifestGet ∧ d.size > inMemThreshold then 2 else 1
      | _, _ => 1
  match c with
  | .getBlob dg => headFallback dg .blobGet
  | .getBlobRange dg o0 o1 => if o0 = 0 ∧ o1 < 0 then headFallback dg .blobGet else 1
  | .getManifest dg => headFallback dg .manifestGet
  | .getTag => headFallback [] .manifestGet
  | .pushManifest own => if own.mediaType = [] then 0 else 1
  | .pushBlob _ =>
    match rs with
    | [] => 1
    | r1 :: _ =>
      match gate [202] r1.status, locationFromResponse resolve r1 with
      | none, .ok _ => 2
      | _, _ => 1
  | _ => 1

/-! ## The pager over scripted answers, with the request URIs it asks for -/

structure ListRun where
  items : List Bytes
  uris  : List Bytes          -- request URI (`path?query`) of every request made, in order
  fin   : Option CErr         -- `none`: ended on a short page
  deriving DecidableEq, Repr

/-- ociclient/lister.go:101-141 `pager` with a consumer that never declines. `uriOfLast l` is the
request URI of the initial request with `last = l` (lister.go:154-162); `resolveURI` turns a Link
target into the request URI it resolves to (`net/url`; `none` = `URL.Parse` fails). -/
def listRun (dec : Bytes → Option (List Bytes)) (resolveURI : Bytes → Option Bytes) (n : Int)
    (uriOfLast : Bytes → Bytes) : Bytes → List Resp → ListRun
  | cur, [] => ⟨[], [cur], some .transport⟩
  | cur, r :: rest =>
    match clientListPage dec (fun t => (resolveURI t).isSome) n r with
    | .error e => ⟨[], [cur], some e⟩
    | .ok (items, none) => ⟨items, [cur], none⟩
    | .ok (items, some nx) =>
      let nextURI : Option Bytes := match nx with
        | .viaLast l => some (uriOfLast l)
        | .viaLink t => resolveURI t
        | .bad => none
      match nextURI with
      | none => ⟨items, [cur], some .badLink⟩
      | some u =>
        let r' := listRun dec resolveURI n uriOfLast u rest
        ⟨items ++ r'.items, cur :: r'.uris, r'.fin⟩

/-- ociclient/lister.go:31-36/51-57 + internal/ocirequest/create.go:92-104: request URI of a list request -/
def listURI (r : Request) : Bytes :=
  let (_, p, q) := construct B64Url.encode r
  if q = [] then p else p ++ [63] ++ encodeQuery q

/-! ## Client over server: one call, composed -/

/-- The status `WriteError` gives a handler error (`OciModel/ErrCodec.lean`, error.go's table). -/
def SErr.status : SErr → Nat
  | .range416 => 416
  | .pageTooLarge => 400         -- UNSUPPORTED
  | .referrersDisabled => 404
  | .digestInvalid => 400        -- DIGEST_INVALID
  | .badManifestJSON => 500
  | .shape => 500

/-- What the client receives for a server outcome (`none`: the connection is dropped after a panic). -/
def SOut.wire : SOut → Option Resp
  | .resp r => some r
  | .err e => some (mkResp e.status [] [])
  | .panic => none

/-- A left inverse of `jsonStr` on its image: the string literal at the front (after the opening
quote), and what follows it. -/
def unJsonStrBody : Bytes → Option (Bytes × Bytes)
  | [] => none
  | c :: rest =>
    if c = 34 then some ([], rest)
    else if c = 92 then
      match rest with
      | [] => none
      | e :: rest' =>
        if e = 117 then
          match rest' with
          | a :: b :: x :: y :: rest'' =>
            if a = 48 ∧ b = 48 then
              match unhex x, unhex y, unJsonStrBody rest'' with
              | some hx, some hy, some (s, r) => some (UInt8.ofNat (hx * 16 + hy) :: s, r)
              | _, _, _ => none
            else none
          | _ => none
        else
          let d : Option UInt8 :=
            if e = 34 then some 34 else if e = 92 then some 92 else if e = 98 then some 8
            else if e = 102 then some 12 else if e = 110 then some 10 else if e = 114 then some 13
            else if e = 116 then some 9 else none
          match d, unJsonStrBody rest' with
          | some d, some (s, r) => some (d :: s, r)
          | _, _ => none
    else
      match unJsonStrBody rest with
      | some (s, r) => some (c :: s, r)
      | none => none

def unJsonStr : Bytes → Option (Bytes × Bytes)
  | 34 :: rest => unJsonStrBody rest
  | _ => none

/-- the elements of a non-empty array after `[`: string, then `,` or `]` -/
def unJsonStrs : Nat → Bytes → Option (List Bytes × Bytes)
  | 0, _ => none
  | fuel + 1, s =>
    match unJsonStr s with
    | none => none
    | some (x, rest) =>
      match rest with
      | 93 :: rest' => some ([x], rest')
      | 44 :: rest' =>
        match unJsonStrs fuel rest' with
        | some (xs, r) => some (x :: xs, r)
        | none => none
      | _ => none

/-- a `[]string` as `jsonStrList` prints it -/
def unJsonStrList (s : Bytes) : Option (List Bytes × Bytes) :=
  match cutPrefix (strBytes "null") s with
  | some rest => some ([], rest)
  | none =>
    match s with
    | 91 :: rest => unJsonStrs s.length rest
    | _ => none

/-- left inverse of `encTags` -/
def decTagsImage (s : Bytes) : Option (List Bytes) :=
  match cutPrefix (strBytes "{\"name\":") s with
  | none => none
  | some s =>
    match unJsonStr s with
    | none => none
    | some (_, s) =>
      match cutPrefix (strBytes ",\"tags\":") s with
      | none => none
      | some s =>
        match unJsonStrList s with
        | some (l, [125]) => some l
        | _ => none

/-- left inverse of `encCatalog` -/
def decCatalogImage (s : Bytes) : Option (List Bytes) :=
  match cutPrefix (strBytes "{\"repositories\":") s with
  | none => none
  | some s =>
    match unJsonStrList s with
    | some (l, [125]) => some l
    | _ => none

/-- The backend's listing after a start point (`""` = from the beginning). -/
def backendAfter (L : List Bytes) (start : Bytes) : List Bytes :=
  if start = [] then L else Pager.after L (some start)

/-- The real pager over the real server over a backend listing `L`, at the level of bytes: each
round serves the request (`serverResp`), decodes the answer (`clientListPage`) and classifies the
follow-up request as the server's router would (`classifyTarget`). `fuel` bounds the rounds. -/
def rtList (H : Bytes → Bytes) (o : SrvOpts) (dec : Bytes → Option (List Bytes)) (n : Int) (L : List Bytes) :
    Nat → SrvReq → List Bytes × Option CErr
  | 0, _ => ([], some .transport)
  | fuel + 1, q =>
    match (serverResp H o q (.items (backendAfter L q.r.listLast))).wire with
    | none => ([], some .transport)
    | some r =>
      match clientListPage dec (fun _ => true) n r with
      | .error e => ([], some e)
      | .ok (items, none) => (items, none)
      | .ok (items, some nx) =>
        let q' : Option SrvReq := match nx with
          | .viaLast l =>
            let r' := { q.r with listLast := l }
            some { q with r := r', query := listQuery r' }
          | .viaLink t =>
            match classifyTarget mGET t, parseQuery (splitTarget t).2 with
            | .ok r', some ps => some { q with r := r', path := (splitTarget t).1, query := ps }
            | _, _ => none
          | .bad => none
        match q' with
        | none => (items, some .badLink)
        | some q' =>
          let (more, fin) := rtList H o dec n L fuel q'
          (items ++ more, fin)

end OciModel.RespCodec
