/-
The data a manifest reference consists of (`Desc`, `RefInfo`) and what decoding a
manifest gives (`Decoded`): shared by the registry model (`Mem.lean`) and the model of
ocimem's manifest decoder (`ManifestDecode.lean`), which the registry model calls when
it follows a reference under the media type the referring descriptor declares (F42).
Split off `Mem.lean`; the declarations are unchanged and stay in `OciModel.Mem`.
-/
import OciModel.Base

namespace OciModel.Mem

structure Desc where
  mediaType : Bytes
  digest    : Bytes
  size      : Int
  deriving DecidableEq, Repr

/-- A reference found inside a decoded manifest. `kind`: 0 blob (layer, config),
1 manifest (index entry), 2 subject. -/
structure RefInfo where
  kind : Nat
  desc : Desc
  deriving DecidableEq, Repr

/-- What `json.Unmarshal` into `ocispec.Manifest` / `ocispec.Index` gave for the
pushed bytes under the pushed media type: `opaque` for any other media type. -/
inductive Decoded where
  | opaque
  | malformed
  | refs (rs : List RefInfo)
  deriving DecidableEq, Repr

end OciModel.Mem
