/-
Regular expressions over bytes, as `regexp/syntax` hands them to Go's `regexp` package: the
translator emits the syntax trees of ociref's patterns as terms of `Re` (Generated/RefRe.lean).
`lang` is the textbook language of an expression (what an anchored `^…$` match decides);
`Re.matches` is an executable matcher by Brzozowski derivatives, proved equal to `lang` in
RegexLemmas.lean. Capture groups do not change the language.
Core Lean only (linked into the driver).
-/
import OciModel.Base

namespace OciModel.Regex

inductive Re where
  | eps                                   -- the empty string
  | cls (ranges : List (Nat × Nat))       -- one byte in one of the inclusive ranges
  | cat (a b : Re)
  | alt (a b : Re)
  | star (a : Re)
  | plus (a : Re)
  | opt (a : Re)
  | grp (n : Nat) (a : Re)                -- capture group n
  deriving Repr, DecidableEq, Inhabited

def inClass (ranges : List (Nat × Nat)) (b : UInt8) : Bool :=
  ranges.any fun r => r.1 ≤ b.toNat && b.toNat ≤ r.2

/-- The language of an expression. -/
def lang : Re → Bytes → Prop
  | .eps, s => s = []
  | .cls rs, s => ∃ b, s = [b] ∧ inClass rs b = true
  | .cat a b, s => ∃ x y, s = x ++ y ∧ lang a x ∧ lang b y
  | .alt a b, s => lang a s ∨ lang b s
  | .star a, s => ∃ parts : List Bytes, s = parts.flatten ∧ ∀ p ∈ parts, lang a p
  | .plus a, s => ∃ parts : List Bytes, parts ≠ [] ∧ s = parts.flatten ∧ ∀ p ∈ parts, lang a p
  | .opt a, s => s = [] ∨ lang a s
  | .grp _ a, s => lang a s

/-- Does the expression accept the empty string? -/
def nullable : Re → Bool
  | .eps => true
  | .cls _ => false
  | .cat a b => nullable a && nullable b
  | .alt a b => nullable a || nullable b
  | .star _ => true
  | .plus a => nullable a
  | .opt _ => true
  | .grp _ a => nullable a

/-- The expression that matches nothing (an empty class). -/
def none : Re := .cls []

/-- Brzozowski derivative with respect to one byte. -/
def deriv (c : UInt8) : Re → Re
  | .eps => none
  | .cls rs => if inClass rs c then .eps else none
  | .cat a b => if nullable a then .alt (.cat (deriv c a) b) (deriv c b) else .cat (deriv c a) b
  | .alt a b => .alt (deriv c a) (deriv c b)
  | .star a => .cat (deriv c a) (.star a)
  | .plus a => .cat (deriv c a) (.star a)
  | .opt a => deriv c a
  | .grp _ a => deriv c a

/-- Executable matcher: does the whole string belong to the language? -/
def Re.matches (r : Re) : Bytes → Bool
  | [] => nullable r
  | c :: s => Re.matches (deriv c r) s

end OciModel.Regex
