/-
Model of a chunked upload through the HTTP client and server onto an in-memory
upload buffer:

* `CW`   — `ociclient.blobWriter` (writer.go): `chunk`, `size`, `flushed`, `chunkSize`;
           `Write` buffers until the chunk size would be exceeded, `flush` sends one
           PATCH (or the final PUT) labelled `Content-Range: RangeString(flushed, flushed+n)`.
* server — `handleBlobUploadChunk` / `handleBlobCompleteUpload`: `chunkRange` turns the
           header and Content-Length into the offset passed to `PushBlobChunkedResume`,
           then the body is copied (no `Write` call at all for an empty body).
* buffer — `ocimem.Buffer`: the first `Write` after a resume checks the offset.

`step` returns the list of backend calls made (`BOp`), which the correspondence
compares with a recording shim between the real server and ocimem.
-/
import OciModel.Base
import OciModel.ReqCodec

namespace OciModel.Upload
open OciModel.ReqCodec

/-- backend calls seen behind the server -/
inductive BOp where
  | resume (offset : Int)
  | write (n : Nat)
  | commit
  deriving DecidableEq, Repr

structure CW where
  chunk     : Bytes
  size      : Nat
  flushed   : Nat
  chunkSize : Nat
  deriving DecidableEq, Repr

/-- the upload buffer behind the server (`Buffer.buf`); `poisoned` = a sticky commit error -/
structure Srv where
  buf      : Bytes
  poisoned : Bool := false
  deriving DecidableEq, Repr

inductive Err where
  | rangeInvalid      -- 416
  | badRange          -- 400 "Content-Range implies a length of …"
  | digestInvalid
  | poisoned
  deriving DecidableEq, Repr

/-- One PATCH/PUT as the server and the buffer see it: `(a, b)` are the two
numbers of the Content-Range header, `body` the request body. -/
def serverChunk (H : Bytes → Bytes) (sv : Srv) (hdr : Int × Int) (body : Bytes) (commit : Option Bytes) :
    Except Err (Srv × List BOp) :=
  match chunkRange (some hdr) body.length with
  | none => .error .badRange
  | some (start, _) =>
    -- Resume(start) then io.Copy: a Write happens only for a non-empty body
    if body ≠ [] ∧ (sv.buf.length : Int) ≠ start then .error .rangeInvalid
    else
      let sv1 : Srv := { sv with buf := sv.buf ++ body }
      let log := [BOp.resume start] ++ (if body ≠ [] then [BOp.write body.length] else [])
      match commit with
      | none => .ok (sv1, log)
      | some d =>
        if sv1.poisoned then .error .poisoned
        else if H sv1.buf ≠ d then .error .digestInvalid
        else .ok (sv1, log ++ [BOp.commit])

/-- `blobWriter.flush(buf, commitDigest)` -/
def flush (H : Bytes → Bytes) (w : CW) (sv : Srv) (extra : Bytes) (commit : Option Bytes) :
    Except Err (CW × Srv × List BOp) :=
  let body := w.chunk ++ extra
  if commit.isNone ∧ body = [] then .ok (w, sv, [])
  else
    match serverChunk H sv (rangeString w.flushed (w.flushed + body.length)) body commit with
    | .error e => .error e
    | .ok (sv1, log) => .ok ({ w with flushed := w.flushed + body.length, chunk := [] }, sv1, log)

/-- `blobWriter.Write` -/
def write (H : Bytes → Bytes) (w : CW) (sv : Srv) (data : Bytes) : Except Err (CW × Srv × List BOp) :=
  if w.chunk.length + data.length > w.chunkSize then
    match flush H w sv data none with
    | .error e => .error e
    | .ok (w1, sv1, log) => .ok ({ w1 with size := w1.size + data.length }, sv1, log)
  else .ok ({ w with chunk := w.chunk ++ data, size := w.size + data.length }, sv, [])

inductive Op where
  | write (data : Bytes)
  | closeResumeExplicit      -- Close, then PushBlobChunkedResume(id, Size(), chunkSize)
  | closeResumeAsk           -- Close, then PushBlobChunkedResume(id, -1, chunkSize): GET upload status
  deriving DecidableEq, Repr

/-- the offset the client adopts after asking: `ParseRange(RangeString(0, size))` -/
def askedOffset (size : Nat) : Int :=
  (parseRange (rangeString 0 size).1 (rangeString 0 size).2).2

def step (H : Bytes → Bytes) (w : CW) (sv : Srv) : Op → Except Err (CW × Srv × List BOp)
  | .write data => write H w sv data
  | .closeResumeExplicit =>
    match flush H w sv [] none with
    | .error e => .error e
    | .ok (w1, sv1, log) => .ok ({ w1 with size := w1.size, flushed := w1.size, chunk := [] }, sv1, log)
  | .closeResumeAsk =>
    match flush H w sv [] none with
    | .error e => .error e
    | .ok (w1, sv1, log) =>
      let off := (askedOffset sv1.buf.length).toNat
      .ok ({ w1 with size := off, flushed := off, chunk := [] }, sv1, log ++ [BOp.resume (-1)])

def run (H : Bytes → Bytes) (w : CW) (sv : Srv) : List Op → Except Err (CW × Srv × List BOp)
  | [] => .ok (w, sv, [])
  | op :: rest =>
    match step H w sv op with
    | .error e => .error e
    | .ok (w1, sv1, log) =>
      match run H w1 sv1 rest with
      | .error e => .error e
      | .ok (w2, sv2, log2) => .ok (w2, sv2, log ++ log2)

/-- `Commit(d)`: the final flush as a PUT. -/
def commit (H : Bytes → Bytes) (w : CW) (sv : Srv) (d : Bytes) : Except Err (Srv × List BOp) :=
  match flush H w sv [] (some d) with
  | .error e => .error e
  | .ok (_, sv1, log) => .ok (sv1, log)

/-- the bytes a script writes -/
def written : List Op → Bytes
  | [] => []
  | .write d :: rest => d ++ written rest
  | _ :: rest => written rest

def start (chunkSize : Nat) : CW := ⟨[], 0, 0, chunkSize⟩

end OciModel.Upload
