/-
Helper lemmas for the `ociunify` model: insertion sort, compaction, strictly
ascending lists, consumer feeding.
-/
import OciModel.Unify

namespace OciModel.Unify

section sort
variable {α : Type} {cmp : α → α → Ordering}

/-- Strictly ascending: every earlier element is `<` every later one. -/
def StrictAsc (cmp : α → α → Ordering) (l : List α) : Prop := l.Pairwise (fun a b => cmp a b = .lt)

/-- Ascending, duplicates allowed. -/
def Asc (cmp : α → α → Ordering) (l : List α) : Prop := l.Pairwise (fun a b => cmp a b ≠ .gt)

theorem mem_insertBy (x y : α) (l : List α) : y ∈ insertBy cmp x l ↔ y = x ∨ y ∈ l := by
  induction l with
  | nil => simp [insertBy]
  | cons z zs ih =>
    simp only [insertBy]
    split
    · simp [ih]; constructor
      · rintro (h | h | h) <;> simp [h]
      · rintro (h | h | h) <;> simp [h]
    · simp

theorem mem_sortBy (y : α) (l : List α) : y ∈ sortBy cmp l ↔ y ∈ l := by
  induction l with
  | nil => simp [sortBy]
  | cons z zs ih =>
    have : sortBy cmp (z :: zs) = insertBy cmp z (sortBy cmp zs) := rfl
    rw [this, mem_insertBy, ih]; simp

theorem asc_insertBy [Std.TransCmp cmp] (x : α) (l : List α) (h : Asc cmp l) : Asc cmp (insertBy cmp x l) := by
  induction l with
  | nil => simp [insertBy, Asc]
  | cons z zs ih =>
    simp only [Asc, List.pairwise_cons] at h
    simp only [insertBy]
    split
    · rename_i hgt
      simp only [Asc, List.pairwise_cons]
      refine ⟨?_, ih h.2⟩
      intro a ha
      rw [mem_insertBy] at ha
      rcases ha with rfl | ha
      · intro hc
        have := Std.OrientedCmp.lt_of_gt (cmp := cmp) hgt
        have h2 := Std.OrientedCmp.lt_of_gt (cmp := cmp) hc
        have := Std.TransCmp.lt_trans (cmp := cmp) this h2
        simp [Std.ReflCmp.compare_self] at this
      · exact h.1 a ha
    · rename_i hngt
      simp only [Asc, List.pairwise_cons]
      refine ⟨?_, h⟩
      intro a ha
      simp only [List.mem_cons] at ha
      rcases ha with rfl | ha
      · exact hngt
      · -- x ≤ z ≤ a
        intro hc
        have hza := h.1 a ha
        -- cmp x a = gt, so cmp a x = lt; with z ≤ a: cmp z x = lt, so cmp x z = gt
        have h1 : cmp a x = .lt := Std.OrientedCmp.lt_of_gt hc
        have h2 : (cmp z a).isLE := by
          cases hz : cmp z a <;> simp_all
        have := Std.TransCmp.lt_of_isLE_of_lt (cmp := cmp) h2 h1
        exact hngt (Std.OrientedCmp.gt_of_lt this)

theorem asc_sortBy [Std.TransCmp cmp] (l : List α) : Asc cmp (sortBy cmp l) := by
  induction l with
  | nil => simp [sortBy, Asc]
  | cons z zs ih => exact asc_insertBy z _ ih

theorem mem_compactAux (p y : α) (l : List α) (h : y ∈ compactAux cmp p l) : y ∈ l := by
  induction l generalizing p with
  | nil => simp [compactAux] at h
  | cons z zs ih =>
    simp only [compactAux] at h
    split at h
    · exact List.mem_cons_of_mem _ (ih _ h)
    · simp only [List.mem_cons] at h
      rcases h with rfl | h
      · simp
      · exact List.mem_cons_of_mem _ (ih _ h)

theorem mem_compactBy (y : α) (l : List α) (h : y ∈ compactBy cmp l) : y ∈ l := by
  cases l with
  | nil => simp [compactBy] at h
  | cons x xs =>
    simp only [compactBy, List.mem_cons] at h
    rcases h with rfl | h
    · simp
    · exact List.mem_cons_of_mem _ (mem_compactAux _ _ _ h)

/-- Over an ascending list whose elements are all `≥ p`, compaction after `p`
keeps only elements `> p`, in strictly ascending order. -/
theorem strictAsc_compactAux [Std.TransCmp cmp] (p : α) (l : List α)
    (hp : ∀ a ∈ l, cmp p a ≠ .gt) (h : Asc cmp l) :
    (∀ a ∈ compactAux cmp p l, cmp p a = .lt) ∧ StrictAsc cmp (compactAux cmp p l) := by
  induction l generalizing p with
  | nil => simp [compactAux, StrictAsc]
  | cons z zs ih =>
    simp only [Asc, List.pairwise_cons] at h
    simp only [compactAux]
    split
    · exact ih p (fun a ha => hp a (List.mem_cons_of_mem _ ha)) h.2
    · rename_i hne
      have hpz : cmp p z = .lt := by
        have := hp z (by simp)
        cases hc : cmp p z <;> simp_all
      obtain ⟨i1, i2⟩ := ih z h.1 h.2
      refine ⟨?_, ?_⟩
      · intro a ha
        simp only [List.mem_cons] at ha
        rcases ha with rfl | ha
        · exact hpz
        · exact Std.TransCmp.lt_trans hpz (i1 a ha)
      · simp only [StrictAsc, List.pairwise_cons]
        exact ⟨i1, i2⟩

theorem strictAsc_compactBy [Std.TransCmp cmp] (l : List α) (h : Asc cmp l) : StrictAsc cmp (compactBy cmp l) := by
  cases l with
  | nil => simp [compactBy, StrictAsc]
  | cons x xs =>
    simp only [Asc, List.pairwise_cons] at h
    obtain ⟨i1, i2⟩ := strictAsc_compactAux x xs h.1 h.2
    simp only [compactBy, StrictAsc, List.pairwise_cons]
    exact ⟨i1, i2⟩

/-- Nothing is lost by compaction: every element has a `cmp`-equal representative. -/
theorem compactAux_covers [Std.TransCmp cmp] (p : α) (l : List α) (x : α) (hx : x ∈ l) :
    cmp p x = .eq ∨ ∃ y ∈ compactAux cmp p l, cmp y x = .eq := by
  induction l generalizing p with
  | nil => simp at hx
  | cons z zs ih =>
    simp only [List.mem_cons] at hx
    simp only [compactAux]
    split
    · rename_i heq
      rcases hx with rfl | hx
      · exact Or.inl heq
      · exact ih p hx
    · rcases hx with rfl | hx
      · exact Or.inr ⟨x, by simp, Std.ReflCmp.compare_self⟩
      · rcases ih z hx with h | ⟨y, hy, hyx⟩
        · exact Or.inr ⟨z, by simp, h⟩
        · exact Or.inr ⟨y, List.mem_cons_of_mem _ hy, hyx⟩

theorem compactBy_covers [Std.TransCmp cmp] (l : List α) (x : α) (hx : x ∈ l) :
    ∃ y ∈ compactBy cmp l, cmp y x = .eq := by
  cases l with
  | nil => simp at hx
  | cons z zs =>
    simp only [List.mem_cons] at hx
    simp only [compactBy]
    rcases hx with rfl | hx
    · exact ⟨x, by simp, Std.ReflCmp.compare_self⟩
    · rcases compactAux_covers (cmp := cmp) z zs x hx with h | ⟨y, hy, hyx⟩
      · exact ⟨z, by simp, h⟩
      · exact ⟨y, List.mem_cons_of_mem _ hy, hyx⟩

/-- A strictly ascending list is determined by its members: the arrangement
produced by any correct sort (Go's unstable pdqsort included) followed by
compaction is this one. -/
theorem strictAsc_unique [Std.TransCmp cmp] (l l' : List α) (h : StrictAsc cmp l) (h' : StrictAsc cmp l')
    (hm : ∀ x, x ∈ l ↔ x ∈ l') : l = l' := by
  induction l generalizing l' with
  | nil =>
    cases l' with
    | nil => rfl
    | cons y ys => exact absurd ((hm y).2 (by simp)) (by simp)
  | cons x xs ih =>
    cases l' with
    | nil => exact absurd ((hm x).1 (by simp)) (by simp)
    | cons y ys =>
      simp only [StrictAsc, List.pairwise_cons] at h h'
      have irrefl : ∀ a, cmp a a ≠ .lt := fun a => by simp [Std.ReflCmp.compare_self]
      have hxy : x = y := by
        have h1 := (hm x).1 (by simp)
        have h2 := (hm y).2 (by simp)
        simp only [List.mem_cons] at h1 h2
        rcases h1 with h1 | h1
        · exact h1
        · rcases h2 with h2 | h2
          · exact h2.symm
          · have a := h'.1 x h1
            have b := h.1 y h2
            exact absurd (Std.TransCmp.lt_trans a b) (irrefl y)
      subst hxy
      congr 1
      apply ih ys h.2 h'.2
      intro z
      constructor
      · intro hz
        have := (hm z).1 (List.mem_cons_of_mem _ hz)
        simp only [List.mem_cons] at this
        rcases this with rfl | this
        · exact absurd (h.1 z hz) (irrefl z)
        · exact this
      · intro hz
        have := (hm z).2 (List.mem_cons_of_mem _ hz)
        simp only [List.mem_cons] at this
        rcases this with rfl | this
        · exact absurd (h'.1 z hz) (irrefl z)
        · exact this

end sort

/-! ### Feeding a consumer -/

theorem feed_prefix {α} (accept : List (Ev α) → Bool) (hist evs : List (Ev α)) :
    feed accept hist evs <+: evs := by
  induction evs generalizing hist with
  | nil => simp [feed]
  | cons e rest ih =>
    simp only [feed]
    split
    · exact List.prefix_cons_inj e |>.2 (ih _)
    · exact List.prefix_cons_inj e |>.2 (List.nil_prefix)

/-- The history the consumer has seen when call number `i` of `evs` is made. -/
def histAt {α} (hist evs : List (Ev α)) (i : Nat) : List (Ev α) := (evs.take (i + 1)).reverse ++ hist

/-- Call `i` is made exactly when every earlier call was accepted. -/
theorem feed_length {α} (accept : List (Ev α) → Bool) (hist evs : List (Ev α)) (i : Nat) (hi : i < evs.length) :
    i < (feed accept hist evs).length ↔ ∀ j < i, accept (histAt hist evs j) = true := by
  induction evs generalizing hist i with
  | nil => simp at hi
  | cons e rest ih =>
    simp only [feed]
    cases i with
    | zero => simp
    | succ i =>
      simp only [List.length_cons, Nat.add_lt_add_iff_right] at hi ⊢
      by_cases ha : accept (e :: hist) = true
      · simp only [ha, if_true]
        rw [ih (e :: hist) i hi]
        constructor
        · intro h j hj
          cases j with
          | zero => simpa [histAt] using ha
          | succ j =>
            have := h j (by omega)
            simpa [histAt] using this
        · intro h j hj
          have := h (j + 1) (by omega)
          simpa [histAt] using this
      · simp only [ha]
        simp only [Bool.false_eq_true, if_false, List.length_nil, Nat.not_lt_zero, false_iff]
        intro h
        have := h 0 (by omega)
        simp [histAt] at this
        exact ha this

/-! ### Shapes of an `ocimem` member's answers (used by the `Unify.step` theorems of `Props/C15.lean`) -/

theorem toOut_ofOut (o : Mem.Out) : toOut (ofOut o) = o := by cases o <;> rfl

/-- The two calls that open a writer answer with a writer or an error. -/
theorem mem_open_out (H : Bytes → Bytes) (m : Mem.State) (op : Mem.Op)
    (h : ∃ r, op = .pushChunked r ∨ ∃ id off, op = .resume r id off) :
    (∃ c, (Mem.step H m op).2 = .err c) ∨ ∃ id, (Mem.step H m op).2 = .okWriter id := by
  obtain ⟨r, rfl | ⟨id, off, rfl⟩⟩ := h <;> simp only [Mem.step] <;> (repeat' split) <;> simp

/-- A member's `Write` answers with the length of what it was given, or an error. -/
theorem mem_write_out (H : Bytes → Bytes) (m : Mem.State) (r id d : Bytes) :
    (∃ c, (Mem.step H m (.wWrite r id d)).2 = .err c) ∨ (Mem.step H m (.wWrite r id d)).2 = .okN d.length := by
  simp only [Mem.step]; (repeat' split) <;> simp

end OciModel.Unify
