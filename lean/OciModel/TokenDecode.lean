/-
The token-response decoder of `ociregistry/ociauth/auth.go` and its consumer:

  `doTokenRequest`      `var tok wireToken; json.Unmarshal(data, &tok)` on the body of a 200 answer
  `acquireAccessToken`  the tail after the token request: adopt the refresh token, pick the access
                        token, compute the expiry, append to the cache

Until now the auth transport model (`AuthTransport.lean`) took the DECODED answer as a parameter
(`TokReply.json token accessToken refreshToken expiresIn`, `expires_in` a natural number) and the
harness did the decoding. Here the decoding is part of the model, on top of the JSON reader of
`Json.lean` and the struct-decoding rules of `ManifestDecode.lean` (`lookupField`, `setStr`,
`setInt`: the same `encoding/json`), and `expires_in` is an `Int`, as Go's `int` is signed.

`wireToken` (four fields, no custom unmarshaller — regenerated fact `Generated/WireToken.lean`):

  Token string `json:"token"`; AccessToken string `json:"access_token,omitempty"`;
  RefreshToken string `json:"refresh_token"`; ExpiresIn int `json:"expires_in"`

Go's rules as far as they decide the outcome:
* the body must be ONE JSON value with nothing but white space around it (`checkValid` runs over the
  whole input first: a BOM, a second value, a trailing byte are syntax errors);
* a member name selects the field whose JSON name equals it, else the one equal to it under
  `foldName` (ASCII case, U+017F for `s`, U+212A for `k`: `"acceſſ_toKen"` selects `access_token`);
  other members are skipped without looking at their value;
* members are decoded in document order into the same struct: the LAST member selecting a field
  wins, whatever its spelling;
* `null` leaves a field as it is; the document `null` leaves the whole struct zero (no error);
* a string field takes only a JSON string, `expires_in` only a number `-?[0-9]+` within `int64`
  (`1.0`, `1e2`, `9223372036854775808` are errors; NEGATIVE values are accepted); any type error
  fails the call (`UnmarshalTypeError`), and `doTokenRequest` then drops the struct.

The consumer is modelled with time in NANOSECONDS as an `Int` because that is where Go computes:
`time.Duration(seconds) * time.Second` is an `int64` multiplication that WRAPS.
-- F41: until the fix the factor was `tok.ExpiresIn` itself and the product did wrap beyond
±9223372036 s (`lifetimeNsBeforeF41` in `TokenDecodeLemmas.lean` keeps that computation); the code
now clamps the number of seconds to ±`maxSeconds` first (`clampSeconds`), so the product — still
modelled as the `int64` product it is — never leaves the range (`wrap64_clamp`). See `lifetimeNs`
and `Props/C10T.lean` for what that means for negative and for huge `expires_in`.

Core Lean only (linked into the `ocimodel` driver).
-/
import OciModel.ManifestDecode
namespace OciModel.TokenDecode
open OciModel OciModel.Json OciModel.ManifestDecode

/-! ## The decoder -/

/-- `wireToken`. -/
structure WireToken where
  token : Bytes := []
  accessToken : Bytes := []
  refreshToken : Bytes := []
  expiresIn : Int := 0
  deriving DecidableEq, Repr

inductive TokField where
  | token | accessToken | refreshToken | expiresIn
  deriving DecidableEq, Repr

/-- JSON names of `wireToken`'s fields, in declaration order. -/
def tokenTable : List (Bytes × TokField) :=
  [(strBytes "token", .token), (strBytes "access_token", .accessToken),
   (strBytes "refresh_token", .refreshToken), (strBytes "expires_in", .expiresIn)]

/-- One member of the document decoded into `w`; `none`: a type error. -/
def tokStep (w : WireToken) (kv : Bytes × JVal) : Option WireToken :=
  match lookupField tokenTable kv.1 with
  | none => some w
  | some .token => (setStr kv.2 w.token).map fun s => { w with token := s }
  | some .accessToken => (setStr kv.2 w.accessToken).map fun s => { w with accessToken := s }
  | some .refreshToken => (setStr kv.2 w.refreshToken).map fun s => { w with refreshToken := s }
  | some .expiresIn => (setInt kv.2 w.expiresIn).map fun n => { w with expiresIn := n }

/-- `json.Unmarshal(data, &tok)` for a document that passed the syntax check. -/
def decodeVal : JVal → Option WireToken
  | .null => some {}
  | .obj kvs => kvs.foldlM tokStep {}
  | _ => none

inductive DecodeErr where
  | syntax      -- `*json.SyntaxError`: not one JSON value
  | type        -- `*json.UnmarshalTypeError`: not an object, or a member of the wrong type / out of range
  deriving DecidableEq, Repr

instance instDecEqExcept {ε α : Type} [DecidableEq ε] [DecidableEq α] : DecidableEq (Except ε α)
  | .ok a, .ok b => if h : a = b then isTrue (by rw [h]) else isFalse (by intro e; cases e; exact h rfl)
  | .error a, .error b => if h : a = b then isTrue (by rw [h]) else isFalse (by intro e; cases e; exact h rfl)
  | .ok _, .error _ => isFalse (by intro e; cases e)
  | .error _, .ok _ => isFalse (by intro e; cases e)

/-- `doTokenRequest`'s decoding of the body of a 200 answer. -/
def decodeToken (b : Bytes) : Except DecodeErr WireToken :=
  match parse b with
  | none => .error .syntax
  | some v =>
    match decodeVal v with
    | some w => .ok w
    | none => .error .type

/-! ## The consumer -/

/-- `time.Second` in nanoseconds. -/
def second : Int := 1000000000

/-- Go's `int64` conversion / wrap-around of a mathematical integer. -/
def wrap64 (i : Int) : Int := (i + 9223372036854775808) % 18446744073709551616 - 9223372036854775808

-- F41: `const maxSeconds = math.MaxInt64 / int64(time.Second)`
/-- The largest number of seconds whose nanoseconds fit into `int64` (292 years). -/
def maxSeconds : Int := 9223372036

-- F41: `seconds := min(max(int64(tok.ExpiresIn), -maxSeconds), maxSeconds)`
/-- The number of seconds the code multiplies: `expires_in`, saturated at ±`maxSeconds`. -/
def clampSeconds (expiresIn : Int) : Int := min (max expiresIn (-maxSeconds)) maxSeconds

-- F41: the factor is `clampSeconds expiresIn` (it was `expiresIn`)
/-- The lifetime the code gives a token, in nanoseconds: 60 s when `expires_in` is 0 (or absent),
else `time.Duration(seconds) * time.Second` — an `int64` product (which would wrap) of the CLAMPED
number of seconds (which therefore does not: `wrap64_clamp`). -/
def lifetimeNs (expiresIn : Int) : Int :=
  if expiresIn = 0 then 60 * second else wrap64 (clampSeconds expiresIn * second)

/-- `tok.Token`, or `tok.AccessToken` when that is empty. -/
def pickAccess (w : WireToken) : Bytes := if w.token = [] then w.accessToken else w.token

inductive UseErr where
  | noAccessToken   -- "no access token found in auth server response"
  deriving DecidableEq, Repr

/-- What `acquireAccessToken` makes of a decoded answer at time `now` (ns): the access token it
returns (and caches), the refresh token it adopts (`none`: the stored one is kept), the expiry. -/
structure Used where
  access : Bytes
  refresh : Option Bytes
  expires : Int
  deriving DecidableEq, Repr

def adopted (w : WireToken) : Option Bytes := if w.refreshToken = [] then none else some w.refreshToken

def useToken (w : WireToken) (now : Int) : Except UseErr Used :=
  if pickAccess w = [] then .error .noAccessToken
  else .ok ⟨pickAccess w, adopted w, now + lifetimeNs w.expiresIn⟩

/-- The part of `registry` the consumer touches: the refresh token (`""`: none) and the cached
access tokens with their expiry (the scope a token is filed under is the caller's business). -/
structure RegSt where
  refresh : Bytes := []
  toks : List (Bytes × Int) := []
  deriving DecidableEq, Repr

/-- `if tok.RefreshToken != "" { r.refreshToken = tok.RefreshToken }` — executed BEFORE the access
token is looked at. -/
def keepRefresh (old : Bytes) (w : WireToken) : Bytes := if w.refreshToken = [] then old else w.refreshToken

/-- The tail of `acquireAccessToken` on the state: new state, and the token handed back for
immediate use (or the error). -/
def consume (st : RegSt) (w : WireToken) (now : Int) : RegSt × Except UseErr Bytes :=
  match useToken w now with
  | .error e => ({ st with refresh := keepRefresh st.refresh w }, .error e)
  | .ok u => ({ refresh := keepRefresh st.refresh w, toks := st.toks ++ [(u.access, u.expires)] }, .ok u.access)

/-- `deleteExpiredTokens(now.Add(time.Second))` keeps a token iff NOT `now + 1 s > expires`. -/
def alive (now : Int) (t : Bytes × Int) : Bool := decide (now + second ≤ t.2)

/-- The cache as a LATER request (at time `now`) sees it: `setAuthorization` prunes first. -/
def prune (now : Int) (st : RegSt) : RegSt := { st with toks := st.toks.filter (alive now) }

/-- The whole path from the body of a 200 answer: decode, then consume. `none`: the token request
failed (`doTokenRequest` returned an error) and the state is untouched. -/
def acquireFromBody (st : RegSt) (body : Bytes) (now : Int) : Option (RegSt × Except UseErr Bytes) :=
  match decodeToken body with
  | .error _ => none
  | .ok w => some (consume st w now)

/-! ## Canonical documents -/

/-- The document a token server following the specification sends. -/
def tokenJ (w : WireToken) : JVal :=
  .obj [(strBytes "token", .str w.token), (strBytes "access_token", .str w.accessToken),
        (strBytes "refresh_token", .str w.refreshToken), (strBytes "expires_in", .num (intText w.expiresIn))]

/-- A value the canonical printer renders faithfully: well-formed UTF-8, `expires_in` an `int64`. -/
def WireToken.OK (w : WireToken) : Prop :=
  ValidUtf8 w.token ∧ ValidUtf8 w.accessToken ∧ ValidUtf8 w.refreshToken ∧
    -9223372036854775808 ≤ w.expiresIn ∧ w.expiresIn ≤ 9223372036854775807

instance (w : WireToken) : Decidable w.OK := inferInstanceAs (Decidable (_ ∧ _ ∧ _ ∧ _ ∧ _))

end OciModel.TokenDecode
