/-
Model of `ociregistry/ociauth/authfile.go`: `decodeAuth`, `urlHost`,
`decodeConfigFile` (the `for addr, ac := range f.Auths` loop that mutates the map
it ranges over) and `(*ConfigFile).EntryForRegistry`.

What is a parameter, not modelled:
* the JSON parser (`encoding/json`): the model starts from the parsed document,
  a finite list of `(key, Entry)` (looked up by first match, so it is a finite map),
  `credsStore` and `credHelpers`;
* the helper programs: `Runner` is any function from (helper name, host) to a
  `HelperResult`;
* Go's map iteration order: `decodeWith` takes the visiting sequence as an
  argument. The Go spec guarantees that every entry present when the loop starts
  is produced exactly once and that an entry created during the loop is produced
  at most once (or skipped); theorem `decode_order_independent` covers every such
  sequence.
Error texts are not modelled: a failing call is `none`.

Core Lean only (linked into the `ocimodel` driver).
-/
import OciModel.Base64
namespace OciModel.AuthFile

/-- The JSON-visible fields of `authConfig`. -/
structure Entry where
  username : Bytes := []
  password : Bytes := []
  auth : Bytes := []
  identityToken : Bytes := []
  registryToken : Bytes := []
  deriving DecidableEq, Repr

/-- `authConfig`: the entry plus the unexported `derivedFrom`. -/
structure AuthConfig where
  derivedFrom : List Bytes := []
  e : Entry := {}
  deriving DecidableEq, Repr

/-- `ConfigEntry`. -/
structure ConfigEntry where
  refreshToken : Bytes := []
  accessToken : Bytes := []
  username : Bytes := []
  password : Bytes := []
  deriving DecidableEq, Repr

/-- A Go `map[string]V` as an association list read by first match; `insert`
shadows. Only `List.lookup` is ever used to read it. -/
abbrev Auths := List (Bytes × AuthConfig)

def insert (k : Bytes) (v : AuthConfig) (m : Auths) : Auths := (k, v) :: m

/-! ### `decodeAuth` -/

/-- `strings.Cut(s, ":")`: split at the first `:`; `none` when there is none. -/
def cutColon : Bytes → Option (Bytes × Bytes)
  | [] => none
  | c :: rest =>
    if c == 58 then some ([], rest)
    else match cutColon rest with
      | some (u, p) => some (c :: u, p)
      | none => none

def dropNul (p : Bytes) : Bytes := p.dropWhile (· == 0)

/-- `strings.Trim(p, "\x00")`: leading and trailing NUL bytes removed. -/
def trimNul (p : Bytes) : Bytes := (dropNul (dropNul p).reverse).reverse

/-- `decodeAuth`: base64, cut at the first `:`, the user must be non-empty, NULs
trimmed from both ends of the password. -/
def decodeAuth (s : Bytes) : Option (Bytes × Bytes) :=
  match Base64.decode s with
  | none => none
  | some d =>
    match cutColon d with
    | none => none
    | some (u, p) => if u = [] then none else some (u, trimNul p)

/-! ### `urlHost` -/

def httpPrefix : Bytes := [104, 116, 116, 112, 58, 47, 47]          -- "http://"
def httpsPrefix : Bytes := [104, 116, 116, 112, 115, 58, 47, 47]    -- "https://"

/-- `urlHost`: strip one `http://` or `https://` prefix, keep what precedes the first `/`. -/
def urlHost (u : Bytes) : Bytes :=
  let stripped :=
    if httpPrefix.isPrefixOf u then u.drop 7
    else if httpsPrefix.isPrefixOf u then u.drop 8
    else u
  stripped.takeWhile (· != 47)

/-- `strings.Contains(addr, "//")`. -/
def hasSS : Bytes → Bool
  | [] => false
  | [_] => false
  | a :: b :: rest => (a == 47 && b == 47) || hasSS (b :: rest)

/-! ### `slices.Sort` on strings -/

/-- Go string order: lexicographic on bytes. -/
def bytesLe : Bytes → Bytes → Bool
  | [], _ => true
  | _ :: _, [] => false
  | a :: as, b :: bs => a < b || (a == b && bytesLe as bs)

def insertSorted (k : Bytes) : List Bytes → List Bytes
  | [] => [k]
  | x :: xs => if bytesLe k x then k :: x :: xs else x :: insertSorted k xs

def sortKeys (l : List Bytes) : List Bytes := l.foldr insertSorted []

/-! ### `decodeConfigFile` -/

/-- The `if ac.Auth != "" { … }` step: user and password are overwritten by the decoded
`auth`; `none` when `auth` is present and does not decode. -/
def decodeEntry (e : Entry) : Option Entry :=
  if e.auth = [] then some e
  else match decodeAuth e.auth with
    | some (u, p) => some { e with username := u, password := p }
    | none => none

/-- One iteration of `for addr, ac := range f.Auths` with `addr` the key produced.
(`ac` is the map's current value for `addr`; a key that is not in the map is never
produced, the model leaves the map alone then.) -/
def visit (m : Auths) (addr : Bytes) : Option Auths :=
  match m.lookup addr with
  | none => some m
  | some ac0 =>
    match decodeEntry ac0.e with
    | none => none                                    -- "cannot decode auth field"
    | some e =>
      let ac : AuthConfig := { ac0 with e := e }
      let m := insert addr ac m                       -- f.Auths[addr] = ac
      if !hasSS addr then some m
      else
        let addr1 := urlHost addr
        if addr1 = addr then some m
        else
          match m.lookup addr1 with
          | some ac1 =>
            if ac1.derivedFrom = [] then some m       -- don't override an explicit entry
            else
              some (insert addr1 { ac1 with derivedFrom := sortKeys (ac1.derivedFrom ++ [addr]) } m)
          | none =>
            some (insert addr1 { ac with derivedFrom := sortKeys (ac.derivedFrom ++ [addr]) } m)

def visitAll : Auths → List Bytes → Option Auths
  | m, [] => some m
  | m, k :: ks =>
    match visit m k with
    | none => none
    | some m' => visitAll m' ks

/-- The table `json.Unmarshal` produces: `derivedFrom` is unexported, hence empty. -/
def initAuths (orig : List (Bytes × Entry)) : Auths :=
  orig.map fun (k, e) => (k, { derivedFrom := [], e := e })

/-- `decodeConfigFile` after a successful `json.Unmarshal`, ranging over the keys in
the order `v`. `none` = the load fails. -/
def decodeWith (orig : List (Bytes × Entry)) (v : List Bytes) : Option Auths :=
  visitAll (initAuths orig) v

/-! ### `EntryForRegistry` -/

inductive HelperResult where
  | ok (e : ConfigEntry)      -- `err == nil` (credentials not found = the zero entry)
  | notFound                  -- an error for which `errors.Is(err, ErrHelperNotFound)`
  | otherErr                  -- any other error
  deriving DecidableEq, Repr

abbrev Runner := Bytes → Bytes → HelperResult

structure Config where
  auths : Auths := []
  credsStore : Bytes := []
  credHelpers : List (Bytes × Bytes) := []

/-- The part of `EntryForRegistry` after the helpers: `c.data.Auths[host]` (the zero
value when absent), the two error checks, the field renaming. -/
def tableLookup (m : Auths) (host : Bytes) : Option ConfigEntry :=
  let auth := (m.lookup host).getD {}
  if auth.e.identityToken ≠ [] ∧ auth.e.username ≠ [] then none      -- "ambiguous auth credentials"
  else if auth.derivedFrom.length > 1 then none                     -- "more than one auths entry"
  else some { refreshToken := auth.e.identityToken, accessToken := auth.e.registryToken,
              username := auth.e.username, password := auth.e.password }

/-- `(*ConfigFile).EntryForRegistry`; `none` = an error is returned. -/
def entryForRegistry (c : Config) (run : Runner) (host : Bytes) : Option ConfigEntry :=
  let (helper, explicit) :=
    match c.credHelpers.lookup host with
    | some h => (h, true)
    | none => (c.credsStore, false)
  if helper ≠ [] then
    match run helper host with
    | .ok e => some e
    | .otherErr => none
    | .notFound => if explicit then none else tableLookup c.auths host
  else tableLookup c.auths host

/-! ### `ExecHelperWithEnv`: from what happened to the helper process to a `HelperResult`

Parameters: the process itself (`ExecOutcome` says what `cmd.Run` reported and what the
program printed) and `encoding/json` (the output of a successful run arrives parsed). -/

/-- Drop leading white space in the sense of `unicode.IsSpace`, on UTF-8 bytes:
U+0009–U+000D, U+0020, U+0085, U+00A0, U+1680, U+2000–U+200A, U+2028, U+2029, U+202F,
U+205F, U+3000. -/
def dropSpaceFront : Bytes → Bytes
  | [] => []
  | c :: r =>
    if (9 ≤ c && c ≤ 13) || c == 32 then dropSpaceFront r
    else match c, r with
      | 0xC2, d :: r' => if d == 0x85 || d == 0xA0 then dropSpaceFront r' else c :: r
      | 0xE1, d :: e :: r' => if d == 0x9A && e == 0x80 then dropSpaceFront r' else c :: r
      | 0xE2, d :: e :: r' =>
        if (d == 0x80 && ((0x80 ≤ e && e ≤ 0x8A) || e == 0xA8 || e == 0xA9 || e == 0xAF)) ||
           (d == 0x81 && e == 0x9F) then dropSpaceFront r' else c :: r
      | 0xE3, d :: e :: r' => if d == 0x80 && e == 0x80 then dropSpaceFront r' else c :: r
      | _, _ => c :: r

/-- The same from the end, on the reversed string (so the encodings are reversed). -/
def dropSpaceBackRev : Bytes → Bytes
  | [] => []
  | c :: r =>
    if (9 ≤ c && c ≤ 13) || c == 32 then dropSpaceBackRev r
    else match c, r with
      | e, d :: r' =>
        if d == 0xC2 && (e == 0x85 || e == 0xA0) then dropSpaceBackRev r'
        else match r' with
          | b :: r'' =>
            if (b == 0xE1 && d == 0x9A && e == 0x80) ||
               (b == 0xE2 && d == 0x80 && ((0x80 ≤ e && e ≤ 0x8A) || e == 0xA8 || e == 0xA9 || e == 0xAF)) ||
               (b == 0xE2 && d == 0x81 && e == 0x9F) ||
               (b == 0xE3 && d == 0x80 && e == 0x80) then dropSpaceBackRev r''
            else c :: r
          | [] => c :: r
      | _, [] => c :: r

/-- `strings.TrimSpace`. -/
def trimSpace (s : Bytes) : Bytes := (dropSpaceBackRev (dropSpaceFront s).reverse).reverse

/-- "credentials not found in native keychain" -/
def notFoundMsg : Bytes :=
  [99, 114, 101, 100, 101, 110, 116, 105, 97, 108, 115, 32, 110, 111, 116, 32, 102, 111, 117, 110,
   100, 32, 105, 110, 32, 110, 97, 116, 105, 118, 101, 32, 107, 101, 121, 99, 104, 97, 105, 110]

/-- "<token>" -/
def tokenUser : Bytes := [60, 116, 111, 107, 101, 110, 62]

/-- What happened when `docker-credential-<name> get` was run. -/
inductive ExecOutcome where
  | notFound                                  -- `exec.ErrNotFound`: no such program
  | cannotRun                                 -- any other error that is not an `*exec.ExitError`
  | exitError (output : Bytes)                -- ran and exited non-zero; combined stdout+stderr
  | exited (creds : Option (Bytes × Bytes))   -- exited 0; output parsed as `{Username, Secret}`, `none` = not JSON
  deriving DecidableEq, Repr

/-- The function returned by `ExecHelperWithEnv`. -/
def execHelper : ExecOutcome → HelperResult
  | .notFound => .notFound
  | .cannotRun => .otherErr
  | .exitError out => if trimSpace out = notFoundMsg then .ok {} else .otherErr
  | .exited none => .otherErr
  | .exited (some (user, secret)) =>
    if user = tokenUser then .ok { refreshToken := secret }
    else .ok { username := user, password := secret }

end OciModel.AuthFile
