/-
Helper lemmas for C14W (model in `OciModel/WrapRO.lean`).
-/
import OciModel.WrapRO
import OciModel.Props.C20

namespace OciModel.WrapRO
open OciModel.Mem (Op Out)
open OciModel.Generated OciModel.Generated.WrapRO

variable {S : Type}

/-! ### ReadOnly -/

theorem ro_wrapped (B : Backend S) (s : S) (op : Op) (m : String)
    (hm : methodOf op = some m) (hs : sourceOf m = .wrapped) :
    roStep B s op = ((B s op).1, some (B s op).2, [op]) := by
  simp [roStep, hm, hs]

theorem ro_nilFuncs (B : Backend S) (s : S) (op : Op) (m : String)
    (hm : methodOf op = some m) (hs : sourceOf m = .nilFuncs)
    (row : Generated.Funcs.Row) (hrow : funcsRow m = some row) (hok : Funcs.RowOk row = true) :
    roStep B s op = (s, some (.err "UNSUPPORTED"), []) := by
  have h := Props.C20.funcs_unset_clean row hok nilFuncs (Or.inl rfl)
  have h' : Funcs.call nilFuncs row = .unset row.method row.errRepo false row.unsetShape := by
    rw [h]; simp [nilFuncs]
  simp only [roStep, hm, hs, hrow, h']

theorem readOnlyOk_read (h : ReadOnlyOk = true) (m : String) (hm : isReadMethod m = true) :
    sourceOf m = .wrapped := by
  simp only [ReadOnlyOk, Bool.and_eq_true, List.all_eq_true, List.mem_append, beq_iff_eq] at h
  simp only [isReadMethod, Bool.or_eq_true, List.contains_iff_mem] at hm
  exact h.1.2 m hm

theorem readOnlyOk_mut (h : ReadOnlyOk = true) (m : String) (hm : isMutatorMethod m = true) :
    sourceOf m = .nilFuncs ∧ ∃ row, funcsRow m = some row ∧ Funcs.RowOk row = true := by
  simp only [ReadOnlyOk, Bool.and_eq_true, List.all_eq_true, List.mem_append, beq_iff_eq] at h
  simp only [isMutatorMethod, Bool.or_eq_true, List.contains_iff_mem] at hm
  have := h.2 m hm
  refine ⟨this.1, ?_⟩
  cases hr : funcsRow m with
  | none => simp [hr] at this
  | some row =>
    refine ⟨row, rfl, ?_⟩
    have h2 := this.2
    simp only [hr, Bool.and_eq_true] at h2
    exact h2.1

/-! ### Immutable -/

theorem immutableOk_unfold (h : ImmutableOk = true) :
    immutablePushKnown = true ∧
    immutableOverrides = ["DeleteBlob", "DeleteManifest", "DeleteTag", "PushManifest"] ∧
    immutableDenies = ["DeleteBlob", "DeleteManifest", "DeleteTag"] := by
  simp only [ImmutableOk, Bool.and_eq_true, beq_iff_eq] at h
  exact ⟨h.1.1.2, h.1.2, h.2⟩

theorem immStep_pushManifest (hok : ImmutableOk = true) (H : Bytes → Bytes) (B : Backend S) (s : S)
    (r t data mt : Bytes) (dec : Mem.Decoded) :
    immStep H B s (.pushManifest r t data mt dec) =
      if t = [] then ((B s (.pushManifest r t data mt dec)).1, some (B s (.pushManifest r t data mt dec)).2,
        [.pushManifest r t data mt dec])
      else immPush H B s r t data mt dec := by
  obtain ⟨hpk, hovr, hden⟩ := immutableOk_unfold hok
  simp [immStep, methodOf, hden, hovr, hpk]

theorem immStep_delete (hok : ImmutableOk = true) (H : Bytes → Bytes) (B : Backend S) (s : S) (op : Op)
    (hd : isDeleteOp op = true) : immStep H B s op = (s, some (.err "DENIED"), []) := by
  obtain ⟨_, _, hden⟩ := immutableOk_unfold hok
  cases op <;> simp [isDeleteOp] at hd <;> simp [immStep, methodOf, hden]

theorem immStep_other (hok : ImmutableOk = true) (H : Bytes → Bytes) (B : Backend S) (s : S) (op : Op)
    (h1 : isDeleteOp op = false) (h2 : methodOf op ≠ some "PushManifest") :
    immStep H B s op = ((B s op).1, some (B s op).2, [op]) := by
  obtain ⟨_, hovr, hden⟩ := immutableOk_unfold hok
  cases op <;> simp [isDeleteOp] at h1 <;> simp [methodOf] at h2 <;> simp [immStep, methodOf, hden, hovr]

/-- The backend calls of `immPush` are `ResolveTag r t` and `PushManifest r t …` only. -/
theorem immPush_calls (H : Bytes → Bytes) (B : Backend S) (s : S) (r t data mt : Bytes) (dec : Mem.Decoded) :
    ∀ c ∈ (immPush H B s r t data mt dec).2.2, c = .resolveTag r t ∨ c = .pushManifest r t data mt dec := by
  simp only [immPush]
  split
  · split <;> simp
  · split
    · simp
    · split
      · split <;> simp
      · simp

end OciModel.WrapRO
