/-
The real codec of composite upload IDs as an instance of `Unify.Codec`, and its relation to the
stand-in codec (`&id0&id1`) of the C15 line protocol (`Driver/Unify.lean`, `harness/c15.go`:
`c15Composite`): the harness's translation `toReal` commutes with splitting and joining and is
injective on the IDs it is applied to, so a history of the C15 engine is the same history whether it
is read with the stand-in or with the real encoding.
-/
import OciModel.Unify
import OciModel.UnifyID
import OciModel.UnifyIDLemmas
import OciModel.Driver.Unify
set_option linter.unusedSimpArgs false
namespace OciModel.UnifyID
open OciModel OciModel.Json OciModel.Unify

/-- base64url (raw) and `encoding/json` on `[]string`, as `ociunify` uses them. -/
def realCodec : Codec where
  b64enc := B64Url.encode
  b64dec := B64Url.decode
  jsonEnc := goStrList
  jsonDec := decodeStrList

theorem joinID_real (a b : Bytes) : joinID realCodec a b = encodeID a b := rfl

theorem splitID_real (id : Bytes) : splitID realCodec id = decodeID id := by
  unfold splitID decodeID decodeIDE realCodec
  simp only
  cases B64Url.decode id with
  | none => rfl
  | some data =>
    simp only
    cases decodeStrList data with
    | none => rfl
    | some l =>
      match l with
      | [] => rfl
      | [_] => rfl
      | [_, _] => rfl
      | _ :: _ :: _ :: _ => rfl

/-! ## The stand-in -/

abbrev standin : Codec := OciModel.Driver.Unify.codec
abbrev amp : UInt8 := OciModel.Driver.Unify.amp
abbrev splitAmp := OciModel.Driver.Unify.splitAmp

/-- No `&` in the string. -/
def NoAmp (s : Bytes) : Prop := amp ∉ s

instance (s : Bytes) : Decidable (NoAmp s) := inferInstanceAs (Decidable (¬ _))

theorem splitAmp_cons_amp (s : Bytes) : splitAmp (amp :: s) = [] :: splitAmp s := by
  simp [Driver.Unify.splitAmp]

theorem splitAmp_ne_nil (s : Bytes) : splitAmp s ≠ [] := by
  induction s with
  | nil => simp [Driver.Unify.splitAmp]
  | cons c s ih =>
    simp only [Driver.Unify.splitAmp, List.foldr_cons] at ih ⊢
    split
    · simp
    · split <;> simp

theorem splitAmp_cons_other (c : UInt8) (hc : c ≠ amp) (s : Bytes) :
    ∃ cur rest, splitAmp s = cur :: rest ∧ splitAmp (c :: s) = (c :: cur) :: rest := by
  cases h : splitAmp s with
  | nil => exact absurd h (splitAmp_ne_nil s)
  | cons cur rest =>
    refine ⟨cur, rest, rfl, ?_⟩
    simp only [Driver.Unify.splitAmp, List.foldr_cons] at h ⊢
    rw [if_neg hc, h]

theorem splitAmp_noamp_append (a : Bytes) (ha : NoAmp a) (s : Bytes) :
    splitAmp (a ++ amp :: s) = a :: splitAmp s := by
  induction a with
  | nil => exact splitAmp_cons_amp s
  | cons c a ih =>
    have hc : c ≠ amp := fun h => ha (by simp [h])
    have ha' : NoAmp a := fun h => ha (by simp [h])
    obtain ⟨cur, rest, h1, h2⟩ := splitAmp_cons_other c hc (a ++ amp :: s)
    rw [List.cons_append, h2]
    rw [ih ha'] at h1
    cases h1; rfl

theorem splitAmp_noamp (a : Bytes) (ha : NoAmp a) : splitAmp a = [a] := by
  induction a with
  | nil => simp [Driver.Unify.splitAmp]
  | cons c a ih =>
    have hc : c ≠ amp := fun h => ha (by simp [h])
    have ha' : NoAmp a := fun h => ha (by simp [h])
    obtain ⟨cur, rest, h1, h2⟩ := splitAmp_cons_other c hc a
    rw [h2]
    rw [ih ha'] at h1
    cases h1; rfl

theorem splitAmp_enc : ∀ (l : List Bytes), (∀ p ∈ l, NoAmp p) → l ≠ [] →
    splitAmp (standin.jsonEnc l) = [] :: l
  | [], _, h => absurd rfl h
  | [a], hl, _ => by
    have : standin.jsonEnc [a] = amp :: a := by simp [Driver.Unify.codec]
    rw [this, splitAmp_cons_amp, splitAmp_noamp a (hl a (by simp))]
  | a :: b :: l, hl, _ => by
    have e : standin.jsonEnc (a :: b :: l) = amp :: (a ++ standin.jsonEnc (b :: l)) := by
      simp [Driver.Unify.codec]
    have e2 : standin.jsonEnc (b :: l) = amp :: (b ++ standin.jsonEnc l) := by simp [Driver.Unify.codec]
    have ih := splitAmp_enc (b :: l) (fun p hp => hl p (by simp [hp])) (by simp)
    rw [e2, splitAmp_cons_amp] at ih
    have ih' := (List.cons.inj ih).2
    rw [e, splitAmp_cons_amp, e2, splitAmp_noamp_append a (hl a (by simp)), ih']

/-- The stand-in is lawful on non-empty lists of `&`-free strings. -/
theorem standin_dec_enc (l : List Bytes) (hl : ∀ p ∈ l, NoAmp p) (hne : l ≠ []) :
    standin.jsonDec (standin.jsonEnc l) = some l := by
  have h := splitAmp_enc l hl hne
  have : standin.jsonDec (standin.jsonEnc l) =
      (match splitAmp (standin.jsonEnc l) with
       | [] :: parts => if parts.isEmpty then none else some parts
       | _ => none) := rfl
  rw [this, h]
  cases l with
  | nil => exact absurd rfl hne
  | cons a l => simp

/-- Joining what `splitAmp` split gives the string back. -/
def joinAmp : List Bytes → Bytes
  | [] => []
  | h :: t => h ++ t.flatMap (fun b => amp :: b)

theorem joinAmp_splitAmp (s : Bytes) : joinAmp (splitAmp s) = s ∧ ∀ p ∈ splitAmp s, NoAmp p := by
  induction s with
  | nil => simp [Driver.Unify.splitAmp, joinAmp, NoAmp]
  | cons c s ih =>
    by_cases hc : c = amp
    · subst hc
      rw [splitAmp_cons_amp]
      cases h : splitAmp s with
      | nil => exact absurd h (splitAmp_ne_nil s)
      | cons cur rest =>
        rw [h] at ih
        refine ⟨?_, ?_⟩
        · have := ih.1
          simp only [joinAmp, List.flatMap_cons, List.nil_append, List.cons_append] at this ⊢
          rw [this]
        · intro p hp
          simp at hp
          rcases hp with rfl | rfl | hp
          · simp [NoAmp]
          · exact ih.2 _ (by simp)
          · exact ih.2 p (by simp [hp])
    · obtain ⟨cur, rest, h1, h2⟩ := splitAmp_cons_other c hc s
      rw [h2]
      rw [h1] at ih
      refine ⟨?_, ?_⟩
      · have := ih.1
        simp only [joinAmp, List.cons_append] at this ⊢
        rw [this]
      · intro p hp
        simp at hp
        rcases hp with rfl | hp
        · have := ih.2 cur (by simp)
          intro hm
          simp at hm
          rcases hm with hm | hm
          · exact hc hm.symm
          · exact this hm
        · exact ih.2 p (by simp [hp])

/-- An ID the stand-in decoder accepts is the stand-in encoding of its parts, which are `&`-free. -/
theorem standin_dec_spec {x : Bytes} {parts : List Bytes} (h : standin.jsonDec x = some parts) :
    x = standin.jsonEnc parts ∧ parts ≠ [] ∧ ∀ p ∈ parts, NoAmp p := by
  have hd : standin.jsonDec x =
      (match splitAmp x with
       | [] :: parts => if parts.isEmpty then none else some parts
       | _ => none) := rfl
  rw [hd] at h
  obtain ⟨hj, hn⟩ := joinAmp_splitAmp x
  split at h
  · rename_i ps heq
    split at h
    · simp at h
    · rename_i hne
      simp at h
      subst h
      rw [heq] at hj hn
      refine ⟨?_, ?_, fun p hp => hn p (by simp [hp])⟩
      · simp only [joinAmp, List.nil_append] at hj
        rw [← hj]; rfl
      · intro he; simp [he] at hne
  · simp at h

/-! ## The translation of the harness -/

/-- `c15Composite` of `harness/c15.go`: an ID written `&a&b…` in a protocol line is handed to the real
unifier as base64url(JSON [a,b,…]); anything else as it is. -/
def toReal (x : Bytes) : Bytes :=
  match standin.jsonDec x with
  | some parts => B64Url.encode (goStrList parts)
  | none => x

/-- The IDs the translation is applied to with a meaning: `&`-separated well-formed UTF-8. -/
def Dom (x : Bytes) : Prop := ∃ parts, standin.jsonDec x = some parts ∧ ∀ p ∈ parts, ValidUtf8 p

theorem map_sanitize_valid (l : List Bytes) (h : ∀ p ∈ l, ValidUtf8 p) : l.map sanitize = l := by
  induction l with
  | nil => rfl
  | cons a l ih =>
    simp [sanitize_valid a (h a (by simp)), ih (fun p hp => h p (by simp [hp]))]

/-- A list of exactly two. -/
def pairOf : List Bytes → Option (Bytes × Bytes)
  | [a, b] => some (a, b)
  | _ => none

theorem splitID_standin_of_dec {x : Bytes} {parts : List Bytes} (h : standin.jsonDec x = some parts) :
    splitID standin x = pairOf parts := by
  have : splitID standin x = (match standin.jsonDec x with | some [a, b] => some (a, b) | _ => none) := rfl
  rw [this, h]
  match parts with
  | [] => rfl
  | [_] => rfl
  | [_, _] => rfl
  | _ :: _ :: _ :: _ => rfl

theorem decodeID_toReal_of_dec {x : Bytes} {parts : List Bytes} (h : standin.jsonDec x = some parts) :
    decodeID (toReal x) = pairOf (parts.map sanitize) := by
  simp only [toReal, h, decodeID, decodeIDE_encode_list]
  match parts.map sanitize with
  | [] => rfl
  | [_] => rfl
  | [_, _] => rfl
  | _ :: _ :: _ :: _ => rfl

theorem toReal_split {x : Bytes} (hx : Dom x) : decodeID (toReal x) = splitID standin x := by
  obtain ⟨parts, hd, hv⟩ := hx
  rw [decodeID_toReal_of_dec hd, splitID_standin_of_dec hd, map_sanitize_valid parts hv]

theorem toReal_join (a b : Bytes) (ha : NoAmp a) (hb : NoAmp b) :
    toReal (joinID standin a b) = encodeID a b := by
  have h := standin_dec_enc [a, b] (by intro p hp; simp at hp; rcases hp with rfl | rfl <;> assumption) (by simp)
  have : joinID standin a b = standin.jsonEnc [a, b] := rfl
  simp only [toReal, this, h, encodeID]

theorem b64_encode_inj {x y : Bytes} (h : B64Url.encode x = B64Url.encode y) : x = y := by
  have := congrArg B64Url.decode h
  simpa [B64Url.decode_encode] using this

theorem toReal_inj {x y : Bytes} (hx : Dom x) (hy : Dom y) (h : toReal x = toReal y) : x = y := by
  obtain ⟨ps, hdx, hvx⟩ := hx
  obtain ⟨qs, hdy, hvy⟩ := hy
  simp only [toReal, hdx, hdy] at h
  have h1 := congrArg decodeStrList (b64_encode_inj h)
  rw [decodeStrList_goStrList, decodeStrList_goStrList, map_sanitize_valid ps hvx, map_sanitize_valid qs hvy] at h1
  have : ps = qs := by simpa using h1
  subst this
  rw [(standin_dec_spec hdx).1, (standin_dec_spec hdy).1]

/-- The translation applied to the upload ID of an operation. -/
def mapID (f : Bytes → Bytes) : Mem.Op → Mem.Op := OciModel.Driver.Unify.mapID f

/-- The upload ID an operation carries, if any. -/
def opID : Mem.Op → Option Bytes
  | .resume _ id _ => some id
  | .wWrite _ id _ => some id
  | .wSize _ id => some id
  | .wCancel _ id => some id
  | .wCommit _ id _ => some id
  | _ => none

theorem fan_toReal (op : Mem.Op) (h : ∀ id, opID op = some id → Dom id) :
    fan realCodec (mapID toReal op) = fan standin op := by
  cases op <;> simp only [mapID, Driver.Unify.mapID, fan] <;>
    (rw [splitID_real, toReal_split (h _ rfl)])

end OciModel.UnifyID
