/-
The unifier model read with the stand-in codec (the C15 line protocol) and with the real codec are
the same machine up to the harness's translation of composite IDs: a step on translated input gives
the translated output, the same two member states, and corresponding tables of live writers.
-/
import OciModel.UnifyIDStandin
import OciModel.ReqCodecLemmas
set_option linter.unusedSimpArgs false
namespace OciModel.UnifyID
open OciModel OciModel.Json OciModel.Unify

/-- A member upload ID as the harness and `ocimem` make them: no `&`, well-formed UTF-8, no NUL. -/
def Plain (x : Bytes) : Prop := NoAmp x ∧ ValidUtf8 x ∧ (0 : UInt8) ∉ x

/-- A composite ID of the protocol: `&`-separated well-formed UTF-8 without NUL. -/
def Good (x : Bytes) : Prop := Dom x ∧ (0 : UInt8) ∉ x

theorem toReal_noamp (a : Bytes) (ha : NoAmp a) : toReal a = a := by
  have h : standin.jsonDec a = none := by
    have hd : standin.jsonDec a =
        (match splitAmp a with
         | [] :: parts => if parts.isEmpty then none else some parts
         | _ => none) := rfl
    rw [hd, splitAmp_noamp a ha]
    cases a <;> simp
  simp [toReal, h]

/-! ## Fresh IDs of `ocimem` are plain -/

theorem validUtf8_ascii (s : Bytes) (h : ∀ c ∈ s, c.toNat < 0x80) : ValidUtf8 s := by
  induction s with
  | nil => decide
  | cons c s ih =>
    show validGo 0 (c :: s) = true
    rw [validGo_ascii c s (h c (by simp))]
    exact ih (fun x hx => h x (by simp [hx]))

theorem freshID_bytes (n : Nat) : ∀ c ∈ Mem.freshID n, c = 64 ∨ Ref.isDigit c = true := by
  have hd : ∀ c ∈ Nat.toDigits 10 n, c.isDigit = true :=
    fun c hc => Nat.isDigit_of_mem_toDigits (by decide) (by decide) hc
  have e : strBytes (toString n) = (Nat.toDigits 10 n).map (fun c => c.val.toUInt8) := by
    rw [show toString n = String.ofList (Nat.toDigits 10 n) from rfl,
      ReqCodec.strBytes_ofList, ReqCodec.flatMap_utf8_digits _ hd]
  intro c hc
  simp only [Mem.freshID, List.mem_cons] at hc
  rcases hc with rfl | hc
  · exact Or.inl rfl
  · rw [e] at hc
    obtain ⟨c', hc', rfl⟩ := List.mem_map.mp hc
    exact Or.inr (ReqCodec.digit_byte (hd c' hc')).1

theorem freshID_plain (n : Nat) : Plain (Mem.freshID n) := by
  have hb := freshID_bytes n
  have hr : ∀ c ∈ Mem.freshID n, 48 ≤ c.toNat ∧ c.toNat ≤ 64 := by
    intro c hc
    rcases hb c hc with rfl | h
    · decide
    · simp only [Ref.isDigit, Bool.and_eq_true, decide_eq_true_eq, UInt8.le_iff_toNat_le] at h
      have h1 : (48 : UInt8).toNat = 48 := by decide
      have h2 : (57 : UInt8).toNat = 57 := by decide
      omega
  refine ⟨?_, validUtf8_ascii _ (fun c hc => by have := hr c hc; omega), ?_⟩
  · intro h; have := hr _ h; revert this; decide
  · intro h; have := hr _ h; revert this; decide

/-! ## Keys of the writers table -/

theorem zero_sep_inj : ∀ (r r' x y : Bytes), (0 : UInt8) ∉ x → (0 : UInt8) ∉ y →
    r ++ 0 :: x = r' ++ 0 :: y → r = r' ∧ x = y
  | [], [], x, y, _, _, h => by simpa using h
  | [], c :: r', x, y, hx, _, h => by
    simp at h
    exact absurd (h.2 ▸ (by simp : (0 : UInt8) ∈ r' ++ 0 :: y)) hx
  | c :: r, [], x, y, _, hy, h => by
    simp at h
    exact absurd (h.2 ▸ (by simp : (0 : UInt8) ∈ r ++ 0 :: x)) hy
  | c :: r, c' :: r', x, y, hx, hy, h => by
    simp at h
    obtain ⟨h1, h2⟩ := zero_sep_inj r r' x y hx hy h.2
    exact ⟨by rw [h.1, h1], h2⟩

theorem wkey_inj {r r' x y : Bytes} (hx : (0 : UInt8) ∉ x) (hy : (0 : UInt8) ∉ y)
    (h : wkey r x = wkey r' y) : r = r' ∧ x = y := by
  simp only [wkey, List.append_assoc, List.cons_append, List.nil_append] at h
  exact zero_sep_inj r r' x y hx hy h

theorem toReal_zero_free {x : Bytes} (hx : Dom x) : (0 : UInt8) ∉ toReal x := by
  obtain ⟨parts, hd, _⟩ := hx
  simp only [toReal, hd]
  intro h
  have := encode_alphabet _ _ h
  revert this; decide

theorem key_corr {r r' x y : Bytes} (hx : Good x) (hy : Good y) :
    wkey r (toReal x) = wkey r' (toReal y) ↔ wkey r x = wkey r' y := by
  constructor
  · intro h
    obtain ⟨h1, h2⟩ := wkey_inj (toReal_zero_free hx.1) (toReal_zero_free hy.1) h
    rw [h1, toReal_inj hx.1 hy.1 h2]
  · intro h
    obtain ⟨h1, h2⟩ := wkey_inj hx.2 hy.2 h
    rw [h1, h2]

theorem alookup_aerase {β} (k k' : Bytes) (m : List (Bytes × β)) :
    Mem.alookup k (Mem.aerase k' m) = if k' = k then none else Mem.alookup k m := by
  induction m with
  | nil => simp [Mem.aerase, Mem.alookup]
  | cons p m ih =>
    obtain ⟨a, v⟩ := p
    simp only [Mem.aerase]
    by_cases h1 : a = k'
    · subst h1
      simp only [if_true, ih, Mem.alookup]
      by_cases h2 : a = k <;> simp [h2]
    · simp only [h1, if_false, Mem.alookup, ih]
      by_cases h2 : a = k
      · subst h2
        have : ¬ k' = a := fun h => h1 h.symm
        simp [this]
      · simp [h2]

theorem alookup_ainsert {β} (k k' : Bytes) (v : β) (m : List (Bytes × β)) :
    Mem.alookup k (Mem.ainsert k' v m) = if k' = k then some v else Mem.alookup k m := by
  simp only [Mem.ainsert, Mem.alookup, alookup_aerase]
  by_cases h : k' = k <;> simp [h]

/-! ## The relation between the two readings of a state -/

structure Rel (s s' : UState) : Prop where
  m0 : s'.m0 = s.m0
  m1 : s'.m1 = s.m1
  w : ∀ r id, Good id → Mem.alookup (wkey r (toReal id)) s'.writers = Mem.alookup (wkey r id) s.writers

theorem rel_insert {w w' : List (Bytes × Int)}
    (hw : ∀ r id, Good id → Mem.alookup (wkey r (toReal id)) w' = Mem.alookup (wkey r id) w)
    (r x : Bytes) (hx : Good x) (v : Int) :
    ∀ r2 id, Good id → Mem.alookup (wkey r2 (toReal id)) (Mem.ainsert (wkey r (toReal x)) v w') =
      Mem.alookup (wkey r2 id) (Mem.ainsert (wkey r x) v w) := by
  intro r2 id hid
  rw [alookup_ainsert, alookup_ainsert, hw r2 id hid]
  by_cases h : wkey r x = wkey r2 id
  · rw [if_pos ((key_corr hx hid).mpr h), if_pos h]
  · rw [if_neg (fun h' => h ((key_corr hx hid).mp h')), if_neg h]

/-! ## Composite IDs of plain member IDs -/

theorem join_good (a b : Bytes) (ha : Plain a) (hb : Plain b) : Good (joinID standin a b) := by
  have h := standin_dec_enc [a, b] (by intro p hp; simp at hp; rcases hp with rfl | rfl; exact ha.1; exact hb.1) (by simp)
  refine ⟨⟨[a, b], h, ?_⟩, ?_⟩
  · intro p hp; simp at hp; rcases hp with rfl | rfl; exact ha.2.1; exact hb.2.1
  · have e : joinID standin a b = amp :: (a ++ amp :: b) := by
      simp [joinID, Driver.Unify.codec]
    rw [e]
    intro hm
    simp at hm
    rcases hm with hm | hm | hm | hm
    · revert hm; decide
    · exact ha.2.2 hm
    · revert hm; decide
    · exact hb.2.2 hm

theorem split_plain {x a b : Bytes} (hx : Good x) (h : splitID standin x = some (a, b)) : Plain a ∧ Plain b := by
  obtain ⟨⟨parts, hd, hv⟩, hz⟩ := hx
  rw [splitID_standin_of_dec hd] at h
  obtain ⟨he, _, hn⟩ := standin_dec_spec hd
  match parts, h with
  | [a', b'], h =>
    simp [pairOf] at h
    obtain ⟨rfl, rfl⟩ := h
    have e : x = amp :: (a' ++ amp :: b') := by rw [he]; simp [Driver.Unify.codec]
    refine ⟨⟨hn a' (by simp), hv a' (by simp), ?_⟩, ⟨hn b' (by simp), hv b' (by simp), ?_⟩⟩
    · intro hm; exact hz (by rw [e]; simp [hm])
    · intro hm; exact hz (by rw [e]; simp [hm])

/-! ## Which IDs a member reports -/

theorem mem_okWriter (H : Bytes → Bytes) (m : Mem.State) (op : Mem.Op) (x : Bytes)
    (h : (Mem.step H m op).2 = .okWriter x) :
    (∃ n, x = Mem.freshID n) ∨ (∃ r off, op = .resume r x off) := by
  cases op <;> simp only [Mem.step] at h <;> (repeat' split at h) <;>
    first
      | (simp at h; done)
      | (simp at h; subst h; exact Or.inl ⟨_, rfl⟩)
      | (simp at h; subst h; exact Or.inr ⟨_, _, rfl⟩)

/-! ## One step under both readings -/

/-- Operations that carry no upload ID and create none: the codec and the writers table play no part. -/
theorem step_plain_op (H : Bytes → Bytes) (C C' : Codec) (pol : Policy) (f : Bool) (m0 m1 : Mem.State)
    (w w' : List (Bytes × Int)) (op : Mem.Op) (h1 : opID op = none) (h2 : ∀ r, op ≠ .pushChunked r) :
    (step H C' pol f ⟨m0, m1, w'⟩ op).2 = (step H C pol f ⟨m0, m1, w⟩ op).2 ∧
    (step H C' pol f ⟨m0, m1, w'⟩ op).1.m0 = (step H C pol f ⟨m0, m1, w⟩ op).1.m0 ∧
    (step H C' pol f ⟨m0, m1, w'⟩ op).1.m1 = (step H C pol f ⟨m0, m1, w⟩ op).1.m1 ∧
    (step H C' pol f ⟨m0, m1, w'⟩ op).1.writers = w' ∧ (step H C pol f ⟨m0, m1, w⟩ op).1.writers = w := by
  cases op <;> simp [opID] at h1 <;> first | (exact absurd rfl (h2 _)) | skip
  all_goals (simp only [step, fan]; refine ⟨?_, ?_, ?_, ?_, ?_⟩ <;> (repeat' split) <;> first | rfl | trivial)

def trOut : UOut → UOut
  | .out (.okWriter id) => .out (.okWriter (toReal id))
  | o => o

theorem trOut_plain (x : Bytes) (hx : Plain x) : trOut (.out (.okWriter x)) = .out (.okWriter x) := by
  simp [trOut, toReal_noamp x hx.1]

theorem trOut_bothResults (o0 o1 : Mem.Out) (h : ∀ x, o0 = .okWriter x → Plain x) :
    trOut (.out (toOut (bothResults (ofOut o0) (ofOut o1)))) = .out (toOut (bothResults (ofOut o0) (ofOut o1))) := by
  cases o0 with
  | okWriter x =>
    have := toReal_noamp x (h x rfl).1
    cases o1 <;> simp [ofOut, bothResults, toOut, trOut, this]
  | _ => cases o1 <;> simp [ofOut, bothResults, toOut, trOut]

theorem step_pushChunked (H : Bytes → Bytes) (pol : Policy) (f : Bool) (m0 m1 : Mem.State)
    (w w' : List (Bytes × Int)) (r : Bytes)
    (hw : ∀ r id, Good id → Mem.alookup (wkey r (toReal id)) w' = Mem.alookup (wkey r id) w) :
    Rel (step H standin pol f ⟨m0, m1, w⟩ (.pushChunked r)).1 (step H realCodec pol f ⟨m0, m1, w'⟩ (.pushChunked r)).1 ∧
    (step H realCodec pol f ⟨m0, m1, w'⟩ (.pushChunked r)).2 = trOut (step H standin pol f ⟨m0, m1, w⟩ (.pushChunked r)).2 := by
  have hp0 := mem_okWriter H m0 (.pushChunked r)
  have hp1 := mem_okWriter H m1 (.pushChunked r)
  simp only [step, fan]
  rcases hs0 : Mem.step H m0 (.pushChunked r) with ⟨s0', o0⟩
  rcases hs1 : Mem.step H m1 (.pushChunked r) with ⟨s1', o1⟩
  rw [hs0] at hp0; rw [hs1] at hp1
  simp only at hp0 hp1 ⊢
  have hpl0 : ∀ x, o0 = .okWriter x → Plain x := by
    intro x hx
    rcases hp0 x hx with ⟨n, rfl⟩ | ⟨_, _, h⟩
    · exact freshID_plain n
    · cases h
  have hpl1 : ∀ x, o1 = .okWriter x → Plain x := by
    intro x hx
    rcases hp1 x hx with ⟨n, rfl⟩ | ⟨_, _, h⟩
    · exact freshID_plain n
    · cases h
  split
  · rename_i id0 id1
    have hg := join_good id0 id1 (hpl0 id0 rfl) (hpl1 id1 rfl)
    have hj : joinID realCodec id0 id1 = toReal (joinID standin id0 id1) := by
      rw [toReal_join id0 id1 (hpl0 id0 rfl).1 (hpl1 id1 rfl).1]; rfl
    refine ⟨⟨rfl, rfl, ?_⟩, ?_⟩
    · simp only [hj]
      exact rel_insert hw r _ hg _
    · simp [trOut, hj]
  · exact ⟨⟨rfl, rfl, hw⟩, (trOut_bothResults o0 o1 hpl0).symm⟩
theorem step_resume (H : Bytes → Bytes) (pol : Policy) (f : Bool) (m0 m1 : Mem.State)
    (w w' : List (Bytes × Int)) (r id : Bytes) (off : Int) (hid : Good id)
    (hw : ∀ r id, Good id → Mem.alookup (wkey r (toReal id)) w' = Mem.alookup (wkey r id) w) :
    Rel (step H standin pol f ⟨m0, m1, w⟩ (.resume r id off)).1 (step H realCodec pol f ⟨m0, m1, w'⟩ (.resume r (toReal id) off)).1 ∧
    (step H realCodec pol f ⟨m0, m1, w'⟩ (.resume r (toReal id) off)).2 =
      trOut (step H standin pol f ⟨m0, m1, w⟩ (.resume r id off)).2 := by
  have hsp : splitID realCodec (toReal id) = splitID standin id := by rw [splitID_real, toReal_split hid.1]
  simp only [step, fan, hsp]
  cases hs : splitID standin id with
  | none => exact ⟨⟨rfl, rfl, hw⟩, rfl⟩
  | some p =>
    obtain ⟨a, b⟩ := p
    obtain ⟨hpa, hpb⟩ := split_plain hid hs
    have hp0 := mem_okWriter H m0 (.resume r a off)
    have hp1 := mem_okWriter H m1 (.resume r b off)
    simp only [Option.map_some]
    rcases hs0 : Mem.step H m0 (.resume r a off) with ⟨s0', o0⟩
    rcases hs1 : Mem.step H m1 (.resume r b off) with ⟨s1', o1⟩
    rw [hs0] at hp0; rw [hs1] at hp1
    simp only at hp0 hp1 ⊢
    have hpl0 : ∀ x, o0 = .okWriter x → Plain x := by
      intro x hx
      rcases hp0 x hx with ⟨n, rfl⟩ | ⟨_, _, h⟩
      · exact freshID_plain n
      · cases h; exact hpa
    have hpl1 : ∀ x, o1 = .okWriter x → Plain x := by
      intro x hx
      rcases hp1 x hx with ⟨n, rfl⟩ | ⟨_, _, h⟩
      · exact freshID_plain n
      · cases h; exact hpb
    split
    · rename_i id0 id1
      have hg := join_good id0 id1 (hpl0 id0 rfl) (hpl1 id1 rfl)
      have hj : joinID realCodec id0 id1 = toReal (joinID standin id0 id1) := by
        rw [toReal_join id0 id1 (hpl0 id0 rfl).1 (hpl1 id1 rfl).1]; rfl
      (repeat' split) <;>
        first
          | exact ⟨⟨rfl, rfl, hw⟩, rfl⟩
          | (refine ⟨⟨rfl, rfl, ?_⟩, ?_⟩
             · simp only [hj]
               exact rel_insert hw r _ hg _
             · simp [trOut, hj])
    · exact ⟨⟨rfl, rfl, hw⟩, (trOut_bothResults o0 o1 hpl0).symm⟩

theorem step_writer (H : Bytes → Bytes) (pol : Policy) (f : Bool) (m0 m1 : Mem.State)
    (w w' : List (Bytes × Int)) (op : Mem.Op) (id : Bytes) (hop : opID op = some id) (hr : ∀ r off, op ≠ .resume r id off)
    (hid : Good id)
    (hw : ∀ r id, Good id → Mem.alookup (wkey r (toReal id)) w' = Mem.alookup (wkey r id) w) :
    Rel (step H standin pol f ⟨m0, m1, w⟩ op).1 (step H realCodec pol f ⟨m0, m1, w'⟩ (mapID toReal op)).1 ∧
    (step H realCodec pol f ⟨m0, m1, w'⟩ (mapID toReal op)).2 = (step H standin pol f ⟨m0, m1, w⟩ op).2 := by
  have hsp : splitID realCodec (toReal id) = splitID standin id := by rw [splitID_real, toReal_split hid.1]
  have hlk : ∀ r, Mem.alookup (wkey r (toReal id)) w' = Mem.alookup (wkey r id) w := fun r => hw r id hid
  have hins : ∀ r v, ∀ r2 id2, Good id2 → Mem.alookup (wkey r2 (toReal id2)) (Mem.ainsert (wkey r (toReal id)) v w') =
      Mem.alookup (wkey r2 id2) (Mem.ainsert (wkey r id) v w) := fun r v => rel_insert hw r id hid v
  cases op <;> simp [opID] at hop
  case resume => subst hop; exact absurd rfl (hr _ _)
  all_goals
    subst hop
    simp only [mapID, Driver.Unify.mapID, step, fan, hsp]
    cases hs : splitID standin _ with
    | none => exact ⟨⟨rfl, rfl, hw⟩, rfl⟩
    | some p =>
      obtain ⟨a, b⟩ := p
      simp only [Option.map_some, hlk]
      (repeat' split) <;>
        first
          | exact ⟨⟨rfl, rfl, hw⟩, rfl⟩
          | exact ⟨⟨rfl, rfl, hins _ _⟩, rfl⟩


/-- The translation of an output: the composite ID a fresh or resumed upload reports. -/
def trOutFor (op : Mem.Op) (o : UOut) : UOut :=
  match op with
  | .pushChunked _ => trOut o
  | .resume _ _ _ => trOut o
  | _ => o

theorem step_translation (H : Bytes → Bytes) (pol : Policy) (f : Bool) (s s' : UState) (op : Mem.Op)
    (hrel : Rel s s') (hop : ∀ id, opID op = some id → Good id) :
    Rel (step H standin pol f s op).1 (step H realCodec pol f s' (mapID toReal op)).1 ∧
    (step H realCodec pol f s' (mapID toReal op)).2 = trOutFor op (step H standin pol f s op).2 := by
  obtain ⟨m0, m1, w⟩ := s
  obtain ⟨m0', m1', w'⟩ := s'
  obtain ⟨h0, h1, hw⟩ := hrel
  simp only at h0 h1 hw
  subst h0 h1
  by_cases hpc : ∃ r, op = .pushChunked r
  · obtain ⟨r, rfl⟩ := hpc
    exact step_pushChunked H pol f _ _ w w' r hw
  by_cases hre : ∃ r id off, op = .resume r id off
  · obtain ⟨r, id, off, rfl⟩ := hre
    exact step_resume H pol f _ _ w w' r id off (hop id rfl) hw
  cases hid : opID op with
  | some id =>
    have h := step_writer H pol f m0' m1' w w' op id hid (fun r off h => hre ⟨r, id, off, h⟩) (hop id hid) hw
    have e : trOutFor op (step H standin pol f ⟨m0', m1', w⟩ op).2 = (step H standin pol f ⟨m0', m1', w⟩ op).2 := by
      cases op <;> simp [opID] at hid <;> first | rfl | exact absurd ⟨_, _, _, rfl⟩ hre
    rw [e]; exact h
  | none =>
    have hm : mapID toReal op = op := by cases op <;> simp [opID] at hid <;> rfl
    have e : trOutFor op (step H standin pol f ⟨m0', m1', w⟩ op).2 = (step H standin pol f ⟨m0', m1', w⟩ op).2 := by
      cases op <;> simp [opID] at hid <;> first | rfl | exact absurd ⟨_, rfl⟩ hpc
    obtain ⟨e1, e2, e3, e4, e5⟩ := step_plain_op H standin realCodec pol f m0' m1' w w' op hid (fun r h => hpc ⟨r, h⟩)
    rw [hm, e]
    refine ⟨⟨e2, e3, ?_⟩, e1⟩
    rw [e4, e5]; exact hw

/-- A whole history (`Unify.run`) under both readings. -/
theorem run_translation (H : Bytes → Bytes) (pol : Policy) (ops : List Mem.Op) :
    ∀ (s s' : UState), Rel s s' → (∀ op ∈ ops, ∀ id, opID op = some id → Good id) →
      Rel (run H standin pol s ops) (run H realCodec pol s' (ops.map (mapID toReal))) := by
  induction ops with
  | nil => intro s s' h _; exact h
  | cons op ops ih =>
    intro s s' h hg
    simp only [run, List.map_cons]
    exact ih _ _ (step_translation H pol true s s' op h (hg op (by simp))).1 (fun o ho => hg o (by simp [ho]))

theorem rel_refl_init (imm : Bool) : Rel (uinit imm) (uinit imm) :=
  ⟨rfl, rfl, fun _ _ _ => rfl⟩

end OciModel.UnifyID
