/-
The client, the wire and the server, composed (sub-check C03W of C03).

The three codec models are put end to end, with glue only:

* request half   — `OciModel/ReqCodec.lean`  (`construct`, `parse`)
* response half  — `OciModel/RespCodec.lean` (`serverResp`, `clientDecode`, the pager pieces)
* error half     — `OciModel/ErrCodec.lean`  (`marshal` = `WriteError`, `unmarshal` = `makeError`)

`serveS` is `ociserver`'s `ServeHTTP` in front of an arbitrary backend: classify the request (`parse`),
decide which backend call the handler makes from the classified request and the headers it reads (`plan`),
make it, and write the answer (`serverResp`) or the error (`marshal`). It records the backend calls made.

`clientCallS` is one `ociregistry.Interface` call on `ociclient`: build the request(s) (`construct`, or the
`Location` a previous answer named), send them, decode the answers (`clientDecode`), rebuild a registry
error from an error answer (`unmarshal`).

Both are written state-passing, so that the same definitions serve a stateless backend (`Call → Answer`),
a stateful one (`σ → Call → σ × Answer`) and a chain of hops (the backend of a server is again a client).

What is a parameter (standard library, trusted): `digest.FromBytes` (`H`), `encoding/json` decoding (the
subject of a pushed manifest, the list bodies on the client, the marshalled error body `errBody`),
`http.StatusText` / the code prefix (`S`, `C`), `json.Compact`. The URL layer is the one of
`ReqCodec`: a request carries the decoded path and the parsed query; a request that goes to a `Location`
is split and parsed with `RespCodec.splitTarget` / `parseQuery` (a path-absolute reference resolves to
itself: `resolveLocal`). Header transport by `net/http` is the identity.

Core Lean only (linked into the `ocimodel` driver).
-/
import OciModel.Base
import OciModel.Ref
import OciModel.ReqCodec
import OciModel.RespCodec
import OciModel.ErrCodec
import OciModel.B64Url

namespace OciModel.Wire
open OciModel OciModel.Ref OciModel.ReqCodec OciModel.RespCodec
open OciModel.ErrCodec (Err)

/-! ## Calls and answers -/

/-- A call on `ociregistry.Interface` with its arguments. The upload protocol appears at the granularity of
its requests: `startUpload` is `PushBlobChunked`, `uploadInfo` is `PushBlobChunkedResume` with offset `-1`,
`uploadChunk` is "resume at `start`, write `data`, close" (what one PATCH stands for), `uploadCommit` is
"resume at `start`, write `data`, commit `dg`" (the final PUT). `hint`/`chunkSize` are the chunk-size hints.
The listings are whole listings (`Tags`, `Repositories`, `Referrers` iterated to the end). -/
inductive Call where
  | getBlob (repo dg : Bytes)
  | getBlobRange (repo dg : Bytes) (o0 o1 : Int)
  | getManifest (repo dg : Bytes)
  | getTag (repo tag : Bytes)
  | resolveBlob (repo dg : Bytes)
  | resolveManifest (repo dg : Bytes)
  | resolveTag (repo tag : Bytes)
  | pushBlob (repo : Bytes) (d : Desc) (content : Bytes)
  | pushManifest (repo tag content mediaType : Bytes)
  | mountBlob (fromRepo toRepo dg : Bytes)
  | deleteBlob (repo dg : Bytes)
  | deleteManifest (repo dg : Bytes)
  | deleteTag (repo tag : Bytes)
  | startUpload (repo : Bytes) (chunkSize : Int)
  | uploadInfo (repo id : Bytes) (chunkSize : Int)
  | uploadChunk (repo id : Bytes) (start hint : Int) (data : Bytes)
  | uploadCommit (repo id : Bytes) (start hint : Int) (data dg : Bytes)
  | tags (repo start : Bytes)
  | repositories (start : Bytes)
  | referrers (repo dg : Bytes)
  deriving DecidableEq, Repr

/-- What a backend answers: a result (`RespCodec.BRes`) or a Go error (`ErrCodec.Err`). -/
inductive Answer where
  | ok (b : BRes)
  | err (e : Err)
  deriving DecidableEq, Repr

/-- A backend with state `σ`. (`σ = Unit`: a function of the call.) -/
abbrev SBackend (σ : Type) := σ → Call → σ × Answer

/-- The task's `Backend := Call → Answer`. -/
abbrev Backend := Call → Answer

/-! ## Messages -/

structure HttpRequest where
  method        : Bytes
  path          : Bytes                        -- `req.URL.Path` (decoded)
  query         : List (Bytes × Bytes) := []   -- `req.URL.Query()` in `url.ParseQuery` order
  badQuery      : Bool := false                -- `url.ParseQuery` fails on the raw query
  range         : Bytes := []                  -- `Range`
  contentType   : Bytes := []                  -- `Content-Type`
  contentRange  : Bytes := []                  -- `Content-Range`
  contentLength : Int := 0                     -- `req.ContentLength`
  body          : Bytes := []
  deriving DecidableEq, Repr

inductive HttpResponse where
  /-- what a handler wrote -/
  | ok (r : Resp)
  /-- what `WriteError` wrote: the status, and a JSON body with this one error -/
  | error (st : Nat) (w : ErrCodec.Wire)
  /-- the handler panicked: the connection is dropped -/
  | dropped
  deriving DecidableEq, Repr

/-- Everything the composition takes from outside. -/
structure Cfg where
  /-- `digest.FromBytes` -/
  H : Bytes → Bytes
  /-- the server's options -/
  o : SrvOpts := {}
  /-- `json.Unmarshal(body, &struct{Subject *Descriptor})` in `subjectFromManifest` -/
  decSubject : Bytes → Option (Option Bytes) := fun _ => some none
  /-- `ErrCodec`'s parameters -/
  S : Nat → Bytes
  C : Bytes → Bytes
  compact : Bytes → Bytes
  table : List (Bytes × Nat)
  stdMsg : Bytes → Bytes
  /-- `json.Marshal(WireErrors{[w]})`: the body `WriteError` writes -/
  errBody : ErrCodec.Wire → Bytes
  /-- `ociclient.Options.ListPageSize` -/
  pageSize : Int := 0
  /-- the client's JSON decoders of the list bodies -/
  decTags : Bytes → Option (List Bytes)
  decCatalog : Bytes → Option (List Bytes)
  decIndex : Bytes → Option (List Desc)

/-! ## Server -/

def codeUnsupported : Bytes := strBytes "UNSUPPORTED"
def codeDigestInvalid : Bytes := strBytes "DIGEST_INVALID"
def codeNameInvalid : Bytes := strBytes "NAME_INVALID"
def codeNameUnknown : Bytes := strBytes "NAME_UNKNOWN"

/-- The Go error behind a refusal of the handler itself (the texts are not the subject here). -/
def serrErr : SErr → Err
  | .range416 => .http 416 (.plain (strBytes "invalid range"))                                  -- withHTTPCode(416, …)
  | .pageTooLarge => .wire (codeUnsupported, strBytes "query parameter n is too large", none)   -- lister.go:119-121
  | .referrersDisabled => .http 404 (.plain (strBytes "referrers API has been disabled"))      -- lister.go:84-86
  | .digestInvalid => .wire (codeDigestInvalid, strBytes "provided digest did not match uploaded content", none)
  | .badManifestJSON => .plain (strBytes "invalid manifest JSON")
  | .shape => .plain (strBytes "internal error")

/-- `badAPIUseError` (ociserver/error.go:27): chunkRange's refusals -/
def badAPIUse : Err := .wire (codeUnsupported, strBytes "bad Content-Range", none)

/-- ociserver/registry.go:238-258 `handlerErrorForRequestParseError` over internal/ocirequest's errors. -/
def perrErr : PErr → Err
  | .unknownPath => .wire (codeNameUnknown, strBytes "unknown URL path", none)
  | .methodNotAllowed => .http 405 (.plain (strBytes "method not allowed"))
  | .nameInvalid => .wire (codeNameInvalid, strBytes "invalid repository name", none)
  | .digestInvalid => .wire (codeDigestInvalid, strBytes "provided digest did not match uploaded content", none)
  | .notFound => .http 404 (.plain (strBytes "page not found"))
  | .badlyFormedDigest => .http 400 (.plain (strBytes "badly formed digest"))
  | .badRequest => .http 400 (.plain (strBytes "bad request"))
  | .badUploadID => .plain (strBytes "invalid upload ID")
  | .badQuery => .plain (strBytes "invalid query")

/-- `WriteError` (error.go:238-244): status and the one wire error of `MarshalError`. -/
def errResp (cfg : Cfg) (e : Err) : HttpResponse :=
  .error (ErrCodec.marshal cfg.S cfg.C cfg.compact cfg.table e).1 (ErrCodec.marshal cfg.S cfg.C cfg.compact cfg.table e).2

/-- `ocirequest.Parse(req.Method, req.URL)` (registry.go:197) -/
def classify (rq : HttpRequest) : Except PErr Request :=
  if rq.badQuery then .error .badQuery
  else parse B64Url.decode B64Url.validUTF8 rq.method rq.path (qget rq.query)

/-- The two numbers of an `a-b` header, before `ParseRange` makes the end exclusive
(`RespCodec.parseRangeB` is this followed by `ReqCodec.parseRange`). -/
def rawRange (s : Bytes) : Option (Int × Int) :=
  match cutByte cDash s with
  | none => none
  | some (a, b) =>
    match atoi a, atoi b with
    | some p0, some p1 => some (p0, p1)
    | _, _ => none

/-- ociserver/writer.go:226-259 `chunkRange(req)`: `none` = 400. -/
def chunkRangeOf (rq : HttpRequest) : Option (Int × Int) :=
  if rq.contentRange = [] then chunkRange none rq.contentLength
  else match rawRange rq.contentRange with
    | none => none                                    -- "we don't understand your Content-Range"
    | some ab => chunkRange (some ab) rq.contentLength

/-- What the handler hands to `serverResp` besides the backend's answer. -/
def srvReqOf (cfg : Cfg) (r : Request) (rq : HttpRequest) : SrvReq :=
  { r := r, range := rq.range, contentType := rq.contentType, body := rq.body, subject := cfg.decSubject rq.body,
    path := rq.path, query := rq.query }

/-- `PushManifest`'s media type argument (writer.go:167-170) -/
def orOctetStream (ct : Bytes) : Bytes := if ct = [] then octetStream else ct

/-- The backend call the handler of a classified request makes, with its arguments (the handler table
registry.go:161-179 and the first backend call of every handler). `.ok none`: no backend is involved
(`/v2/`). `.error e`: the handler refuses before it calls the backend. -/
def plan (cfg : Cfg) (r : Request) (rq : HttpRequest) : Except Err (Option Call) :=
  match r.kind with
  | .ping => .ok none
  | .blobGet =>
    match blobCall rq.range with                                        -- reader.go:65-86
    | none => .error (serrErr .range416)
    | some .full => .ok (some (.getBlob r.repo r.digest))
    | some (.range s e) => .ok (some (.getBlobRange r.repo r.digest s e))
  | .blobHead => .ok (some (.resolveBlob r.repo r.digest))              -- reader.go:28
  | .blobDelete => .ok (some (.deleteBlob r.repo r.digest))             -- deleter.go:26
  | .blobStartUpload => .ok (some (.startUpload r.repo 0))              -- writer.go:57
  | .blobUploadBlob =>                                                  -- writer.go:33-43
    if cfg.o.disableSinglePost then .ok (some (.startUpload r.repo 0))
    else .ok (some (.pushBlob r.repo { mediaType := octetStream, digest := r.digest, size := rq.contentLength } rq.body))
  | .blobMount => .ok (some (.mountBlob r.fromRepo r.repo r.digest))    -- writer.go:155
  | .blobUploadInfo => .ok (some (.uploadInfo r.repo r.uploadID 0))     -- writer.go:78
  | .blobUploadChunk =>                                                 -- writer.go:93-101
    match chunkRangeOf rq with
    | none => .error badAPIUse
    | some (s, e) => .ok (some (.uploadChunk r.repo r.uploadID s (e - s) rq.body))
  | .blobCompleteUpload =>                                              -- writer.go:128-142
    match chunkRangeOf rq with
    | none => .error badAPIUse
    | some (s, e) => .ok (some (.uploadCommit r.repo r.uploadID s (e - s) rq.body r.digest))
  | .manifestGet =>                                                     -- reader.go:120-124
    if r.tag ≠ [] then .ok (some (.getTag r.repo r.tag)) else .ok (some (.getManifest r.repo r.digest))
  | .manifestHead =>                                                    -- reader.go:143-147
    if r.tag ≠ [] then .ok (some (.resolveTag r.repo r.tag)) else .ok (some (.resolveManifest r.repo r.digest))
  | .manifestPut =>                                                     -- writer.go:167-186
    if r.tag = [] ∧ r.digest ≠ cfg.H rq.body then .error (serrErr .digestInvalid)
    else .ok (some (.pushManifest r.repo r.tag rq.body (orOctetStream rq.contentType)))
  | .manifestDelete =>                                                  -- deleter.go:34-39
    if r.tag ≠ [] then .ok (some (.deleteTag r.repo r.tag)) else .ok (some (.deleteManifest r.repo r.digest))
  | .tagsList =>                                                        -- lister.go:45, 119-121
    -- `r.backend.Tags(…)` only makes the iterator; `nextListResults` refuses before it runs it
    if cfg.o.maxListPageSize > 0 ∧ r.listN > cfg.o.maxListPageSize then .error (serrErr .pageTooLarge)
    else .ok (some (.tags r.repo r.listLast))
  | .referrersList =>                                                   -- lister.go:84-94
    if cfg.o.disableReferrers then .error (serrErr .referrersDisabled) else .ok (some (.referrers r.repo r.digest))
  | .catalogList =>                                                     -- lister.go:63, 119-121
    if cfg.o.maxListPageSize > 0 ∧ r.listN > cfg.o.maxListPageSize then .error (serrErr .pageTooLarge)
    else .ok (some (.repositories r.listLast))

/-- What goes on the wire for a handler's outcome. -/
def wireOut (cfg : Cfg) : SOut → HttpResponse
  | .resp r => .ok r
  | .err e => errResp cfg (serrErr e)
  | .panic => .dropped

/-- What the handler writes for the backend's answer: the error through `WriteError`, a result through
the handler's own code (`serverResp`). -/
def respOf (cfg : Cfg) (r : Request) (rq : HttpRequest) : Answer → HttpResponse
  | .err e => errResp cfg e
  | .ok b => wireOut cfg (serverResp cfg.H cfg.o (srvReqOf cfg r rq) b)

/-- `ServeHTTP` in front of backend `B`. The state is the backend's, and the calls made on it so far. -/
def serveS {σ : Type} (cfg : Cfg) (B : SBackend σ) (st : σ × List Call) (rq : HttpRequest) :
    (σ × List Call) × HttpResponse :=
  match classify rq with
  | .error pe => (st, errResp cfg (perrErr pe))
  | .ok r =>
    match plan cfg r rq with
    | .error e => (st, errResp cfg e)
    | .ok none => (st, wireOut cfg (serverResp cfg.H cfg.o (srvReqOf cfg r rq) .unit))
    | .ok (some c) =>
      (((B st.1 c).1, st.2 ++ [c]), respOf cfg r rq (B st.1 c).2)

/-- The task's `serverHandle : Backend → HttpRequest → HttpResponse × List Call`. -/
def serverHandle (cfg : Cfg) (B : Backend) (rq : HttpRequest) : HttpResponse × List Call :=
  ((serveS cfg (fun (_ : Unit) c => ((), B c)) ((), []) rq).2, (serveS cfg (fun (_ : Unit) c => ((), B c)) ((), []) rq).1.2)

/-! ## Client -/

/-- `errorBodySizeLimit` (ociclient/error.go:30) -/
def errorBodySizeLimit : Nat := 8192

def appJSON : Bytes := strBytes "application/json"

/-- `json.Marshal(WireErrors{Errors: []WireError{w}})` (error.go:290-292): a concrete `Cfg.errBody` (the detail
is raw JSON and goes in as it is; `jsonStr` is Go's string encoder for valid UTF-8). -/
def errBodyJSON (w : ErrCodec.Wire) : Bytes :=
  strBytes "{\"errors\":[{\"code\":" ++ jsonStr w.1 ++
    (if w.2.1 = [] then [] else strBytes ",\"message\":" ++ jsonStr w.2.1) ++
    (match w.2.2 with
     | some d => strBytes ",\"detail\":" ++ d
     | none => []) ++ strBytes "}]}"

/-- What `net/http` hands the client for an answer. -/
def toResp (cfg : Cfg) : HttpResponse → Resp
  | .ok r => r
  | .error st w =>
    { status := st, hdr := [(hContentType, appJSON)], contentLength := (cfg.errBody w).length, body := cfg.errBody w }
  | .dropped => { status := 0 }

/-- A failure as the caller sees it: the registry's error rebuilt from an error answer, or anything else. -/
inductive Fault where
  | reg (e : Err)
  | cli (e : CErr)
  deriving DecidableEq, Repr

/-- The result of an interface call on the client. -/
inductive Result where
  | desc (d : Desc)
  | reader (d : Desc) (verify : Bool) (body : Bytes)
  | writer (location : Bytes) (chunkSize : Int) (offset : Int)
  | unit
  /-- a listing: what the iterator yielded, and the error it ended with (if any) -/
  | items (l : List Bytes) (fin : Option Fault)
  | descs (l : List Desc)
  | fail (f : Fault)
  | panic
  deriving DecidableEq, Repr

def tooLarge : Bytes := strBytes "error body too large"

/-- ociclient/error.go:35-52 `makeError` on the answer to `rq`. -/
def makeErr (cfg : Cfg) (rq : HttpRequest) (a : HttpResponse) : Fault :=
  match a with
  | .error st w =>
    if rq.method = mHEAD then .reg (ErrCodec.unmarshal cfg.stdMsg true (st, w))     -- the body is invisible
    else if (cfg.errBody w).length > errorBodySizeLimit then .reg (.http st (.plain tooLarge))
    else .reg (ErrCodec.unmarshal cfg.stdMsg false (st, w))
  | .ok r => .reg (.http r.status (.plain (strBytes "non-JSON error response")))
  | .dropped => .cli .transport

/-- The error of a call that ended on a refused status: the exchange that ended it is the last one. -/
def httpFault (cfg : Cfg) (xs : List (HttpRequest × HttpResponse)) : Fault :=
  match xs.getLast? with
  | some (rq, a) => makeErr cfg rq a
  | none => .cli .transport

/-- A path-absolute `Location` / `Link` target resolves to itself (the host is elided in this model). -/
def resolveLocal (loc : Bytes) : Option Bytes :=
  match loc with
  | 47 :: _ => some loc
  | _ => none

/-- `newRequest(ctx, rreq, body)` (client.go:411-423): method, path and query of `construct`. -/
def mkReq (r : Request) : HttpRequest :=
  { method := (construct B64Url.encode r).1, path := (construct B64Url.encode r).2.1, query := (construct B64Url.encode r).2.2 }

/-- `newRequest` fails (and the call sends nothing) when the request it built does not parse back
(`Request.Construct`, create.go:23-33): this is where the client refuses ill-formed names. -/
def mkReq? (r : Request) : Option HttpRequest :=
  match parse B64Url.decode B64Url.validUTF8 (mkReq r).method (mkReq r).path (qget (mkReq r).query) with
  | .ok _ => some (mkReq r)
  | .error _ => none

/-- A request to a URL the client was given (`Location`, `Link`): `path?query`. -/
def ofTarget (method target : Bytes) : HttpRequest :=
  match parseQuery (splitTarget target).2 with
  | some ps => { method := method, path := (splitTarget target).1, query := ps }
  | none => { method := method, path := (splitTarget target).1, badQuery := true }

/-- `BlobWriter.ID()` of the client for the upload the backend calls `id`: the location the server printed. -/
def uploadLoc (repo id : Bytes) : Bytes := sV2Slash ++ repo ++ sUploadsSlash ++ B64Url.encode id

/-- The `RespCodec.Call` that decodes the answers of a call. -/
def Call.dec (cfg : Cfg) : Call → RespCodec.Call
  | .getBlob _ dg => .getBlob dg
  | .getBlobRange _ dg o0 o1 => .getBlobRange dg o0 o1
  | .getManifest _ dg => .getManifest dg
  | .getTag _ _ => .getTag
  | .resolveBlob _ dg => .resolveBlob dg
  | .resolveManifest _ dg => .resolveManifest dg
  | .resolveTag _ _ => .resolveTag
  | .pushBlob _ d _ => .pushBlob d
  | .pushManifest _ _ content mt => .pushManifest { mediaType := mt, digest := cfg.H content, size := content.length }
  | .mountBlob _ _ dg => .mountBlob dg
  | .deleteBlob .. | .deleteManifest .. | .deleteTag .. => .delete
  | .startUpload _ cs => .pushBlobChunked cs
  | .uploadInfo _ _ cs => .resumeAsk cs
  | .uploadChunk .. => .flushPatch
  | .uploadCommit _ _ start _ data dg => .commit (start + data.length) dg
  | .tags .. | .repositories .. | .referrers .. => .delete      -- not used: the listings have their own decoders

/-- The first request of a call (`none`: the call fails before it sends one). -/
def Call.request1 (cfg : Cfg) : Call → Option HttpRequest
  | .getBlob repo dg => mkReq? { kind := .blobGet, repo := repo, digest := dg }
  | .getBlobRange repo dg o0 o1 =>                                                             -- reader.go:37-54
    (mkReq? { kind := .blobGet, repo := repo, digest := dg }).map fun rq =>
      { rq with range := if o0 = 0 ∧ o1 < 0 then [] else cliRangeHdr o0 o1 }
  | .getManifest repo dg => mkReq? { kind := .manifestGet, repo := repo, digest := dg }
  | .getTag repo tag => mkReq? { kind := .manifestGet, repo := repo, tag := tag }
  | .resolveBlob repo dg => mkReq? { kind := .blobHead, repo := repo, digest := dg }
  | .resolveManifest repo dg => mkReq? { kind := .manifestHead, repo := repo, digest := dg }
  | .resolveTag repo tag => mkReq? { kind := .manifestHead, repo := repo, tag := tag }
  | .pushBlob repo _ _ => mkReq? { kind := .blobStartUpload, repo := repo }              -- writer.go:94-101
  | .pushManifest repo tag content mt =>                                                       -- writer.go:37-59
    if mt = [] then none
    else
      -- Go sets both `Tag` and `Digest`; `construct` prints the tag when there is one (`tagOrDigest`)
      (mkReq? { kind := .manifestPut, repo := repo, tag := tag, digest := if tag = [] then cfg.H content else [] }).map
        fun rq => { rq with contentType := mt, contentLength := content.length, body := content }
  | .mountBlob fromRepo toRepo dg =>
    mkReq? { kind := .blobMount, repo := toRepo, digest := dg, fromRepo := fromRepo }
  | .deleteBlob repo dg => mkReq? { kind := .blobDelete, repo := repo, digest := dg }
  | .deleteManifest repo dg => mkReq? { kind := .manifestDelete, repo := repo, digest := dg }
  | .deleteTag repo tag => mkReq? { kind := .manifestDelete, repo := repo, tag := tag }
  | .startUpload repo _ => mkReq? { kind := .blobStartUpload, repo := repo }
  | .uploadInfo repo id _ => some (ofTarget mGET (uploadLoc repo id))                          -- writer.go:214-218
  | .uploadChunk repo id start _ data =>                                                       -- writer.go:321-347 (PATCH)
    if data = [] then none                                                                     -- writer.go:322-324
    else some { ofTarget mPATCH (uploadLoc repo id) with
                contentRange := rangeStringB start (start + data.length), contentLength := data.length, body := data }
  | .uploadCommit repo id start _ data dg =>                                                   -- writer.go:329-347 (PUT)
    if dg = [] then none                                                                       -- writer.go:406-408
    else some { ofTarget mPUT (urlWithDigest (uploadLoc repo id) dg) with
           contentRange := rangeStringB start (start + data.length), contentLength := data.length, body := data }
  | .tags .. | .repositories .. | .referrers .. => none

/-- The second request of the two-request flows, given the first and its answer. -/
def Call.request2 (c : Call) (rq1 : HttpRequest) (r1 : Resp) : Option HttpRequest :=
  match c with
  | .pushBlob _ d content =>                                                                   -- writer.go:102-147
    match locationFromResponse resolveLocal r1 with
    | .ok loc =>
      some { ofTarget mPUT (urlWithDigest loc d.digest) with
             contentType := octetStream, contentRange := rangeStringB 0 d.size, contentLength := d.size, body := content }
    | .error _ => none
  | _ => some { rq1 with method := mHEAD }                                                     -- reader.go:172-174

def codeSizeInvalid : Bytes := strBytes "SIZE_INVALID"

/-- What ends a two-request call between its requests, on the client's own account: `PushBlob` refuses a
content whose length is not the descriptor's size before it sends the PUT (ociclient/writer.go:129-140:
`fmt.Errorf("…: %w", ErrSizeInvalid)`; the upload has been started by then). -/
def Call.refuse2 : Call → Option Fault
  | .pushBlob _ d content =>
    if (content.length : Int) ≠ d.size then
      some (.reg (.wrapf (strBytes "content length does not match descriptor size: ")
        (.wire (codeSizeInvalid, strBytes "provided length did not match content length", none)) []))
    else none
  | _ => none

def liftCRes (cfg : Cfg) (xs : List (HttpRequest × HttpResponse)) : CRes → Result
  | .desc d => .desc d
  | .reader d v b => .reader d v b
  | .writer l cs off => .writer l cs off
  | .unit => .unit
  | .panic => .panic
  | .err (.http _) => .fail (httpFault cfg xs)
  | .err e => .fail (.cli e)

/-- The result of a call from the exchanges it made. -/
def finish (cfg : Cfg) (c : Call) (xs : List (HttpRequest × HttpResponse)) : Result :=
  liftCRes cfg xs (clientDecode cfg.H resolveLocal (c.dec cfg) (xs.map fun x => toResp cfg x.2))

/-- The result of a call that sends no request: a flush with nothing to flush succeeds and leaves the writer
where it was (ociclient/writer.go:322-324); anything else failed before it could send (`clientDecode … []`). -/
def Call.noRequest (cfg : Cfg) : Call → Result
  | .uploadChunk repo id _ _ [] => .writer (uploadLoc repo id) 0 0
  | c => finish cfg c []

/-- A call that is one request, or two (tag GET with HEAD fallback, POST-then-PUT). `send` is the
transport, state-passing. -/
def simpleCallS {σ : Type} (cfg : Cfg) (send : σ → HttpRequest → σ × HttpResponse) (s : σ) (c : Call) : σ × Result :=
  match c.request1 cfg with
  | none => (s, c.noRequest cfg)
  | some rq1 =>
    if requestsMade resolveLocal (c.dec cfg) [toResp cfg (send s rq1).2] = 2 then
      match c.refuse2, c.request2 rq1 (toResp cfg (send s rq1).2) with
      | some f, _ => ((send s rq1).1, .fail f)
      | none, none => ((send s rq1).1, finish cfg c [(rq1, (send s rq1).2)])
      | none, some rq2 =>
        ((send (send s rq1).1 rq2).1, finish cfg c [(rq1, (send s rq1).2), (rq2, (send (send s rq1).1 rq2).2)])
    else ((send s rq1).1, finish cfg c [(rq1, (send s rq1).2)])

/-- ociclient/lister.go:101-141 `pager` over the transport. `r0` is the initial request (lister.go:154-162
re-sends it with `last` set when an answer carries no `Link`), `fuel` bounds the number of requests. -/
def listLoopS {σ : Type} (cfg : Cfg) (dec : Bytes → Option (List Bytes)) (n : Int)
    (send : σ → HttpRequest → σ × HttpResponse) (r0 : Request) :
    Nat → σ → HttpRequest → σ × List Bytes × Option Fault
  | 0, s, _ => (s, [], some (.cli .transport))
  | fuel + 1, s, rq =>
    match clientListPage dec (fun _ => true) n (toResp cfg (send s rq).2) with
    | .error (.http _) => ((send s rq).1, [], some (makeErr cfg rq (send s rq).2))
    | .error e => ((send s rq).1, [], some (.cli e))
    | .ok (items, none) => ((send s rq).1, items, none)
    | .ok (items, some nx) =>
      let next : Option HttpRequest := match nx with
        | .viaLast l => some (mkReq { r0 with listLast := l })
        | .viaLink t => some (ofTarget mGET t)
        | .bad => none
      match next with
      | none => ((send s rq).1, items, some (.cli .badLink))
      | some rq' =>
        ((listLoopS cfg dec n send r0 fuel (send s rq).1 rq').1,
         items ++ (listLoopS cfg dec n send r0 fuel (send s rq).1 rq').2.1,
         (listLoopS cfg dec n send r0 fuel (send s rq).1 rq').2.2)

def listCallS {σ : Type} (cfg : Cfg) (dec : Bytes → Option (List Bytes)) (send : σ → HttpRequest → σ × HttpResponse)
    (fuel : Nat) (s : σ) (r0 : Request) : σ × Result :=
  if (mkReq? r0).isNone then (s, .items [] (some (.cli .transport)))      -- lister.go:104-108
  else
  ((listLoopS cfg dec (Pager.effectivePageSize cfg.pageSize) send r0 fuel s (mkReq r0)).1,
   .items (listLoopS cfg dec (Pager.effectivePageSize cfg.pageSize) send r0 fuel s (mkReq r0)).2.1
          (listLoopS cfg dec (Pager.effectivePageSize cfg.pageSize) send r0 fuel s (mkReq r0)).2.2)

/-- ociclient/lister.go:73-95 `Referrers` (`construct` prints no query for it, whatever `ListN`). -/
def referrersCallS {σ : Type} (cfg : Cfg) (send : σ → HttpRequest → σ × HttpResponse) (s : σ) (repo dg : Bytes) :
    σ × Result :=
  let rq := mkReq { kind := .referrersList, repo := repo, digest := dg, listN := -1 }
  if (mkReq? { kind := .referrersList, repo := repo, digest := dg, listN := -1 }).isNone then (s, .fail (.cli .transport))
  else
  ((send s rq).1,
    match clientReferrers cfg.decIndex (toResp cfg (send s rq).2) with
    | .ok ds => .descs ds
    | .error (.http _) => .fail (makeErr cfg rq (send s rq).2)
    | .error e => .fail (.cli e))

/-- One interface call on the client. `fuel` bounds the number of pages of a listing. -/
def clientCallS {σ : Type} (cfg : Cfg) (fuel : Nat) (send : σ → HttpRequest → σ × HttpResponse) (s : σ) (c : Call) :
    σ × Result :=
  match c with
  | .tags repo start =>
    listCallS cfg cfg.decTags send fuel s
      { kind := .tagsList, repo := repo, listN := Pager.effectivePageSize cfg.pageSize, listLast := start }
  | .repositories start =>
    listCallS cfg cfg.decCatalog send fuel s
      { kind := .catalogList, listN := Pager.effectivePageSize cfg.pageSize, listLast := start }
  | .referrers repo dg => referrersCallS cfg send s repo dg
  | c => simpleCallS cfg send s c

/-- The task's `clientCall : (HttpRequest → HttpResponse) → Call → Result`. -/
def clientCall (cfg : Cfg) (fuel : Nat) (send : HttpRequest → HttpResponse) (c : Call) : Result :=
  (clientCallS cfg fuel (fun (_ : Unit) rq => ((), send rq)) () c).2

/-! ## Client over server over a backend -/

/-- One call through one hop: the client talks to the server in front of `B`. The state is the
backend's state and the calls it has received. -/
def hopS {σ : Type} (cfg : Cfg) (fuel : Nat) (B : SBackend σ) (st : σ × List Call) (c : Call) :
    (σ × List Call) × Result :=
  clientCallS cfg fuel (serveS cfg B) st c

/-- A history of calls through one hop: final state, calls received by the backend, results. -/
def hopHistory {σ : Type} (cfg : Cfg) (fuel : Nat) (B : SBackend σ) :
    (σ × List Call) → List Call → (σ × List Call) × List Result
  | st, [] => (st, [])
  | st, c :: cs =>
    ((hopHistory cfg fuel B (hopS cfg fuel B st c).1 cs).1,
     (hopS cfg fuel B st c).2 :: (hopHistory cfg fuel B (hopS cfg fuel B st c).1 cs).2)

/-- The same history made directly on the backend. -/
def directHistory {σ : Type} (B : SBackend σ) : σ → List Call → σ × List Answer
  | s, [] => (s, [])
  | s, c :: cs => ((directHistory B (B s c).1 cs).1, (B s c).2 :: (directHistory B (B s c).1 cs).2)

end OciModel.Wire
