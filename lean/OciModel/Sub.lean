/-
Model of `ocifilter.Sub` (ocifilter/sub.go).

The *generated* table (`OciModel.Generated.Sub.table`: per method whether the
context's scopes are mapped, the delegated method, and which arguments are
wrapped in `r.repo(..)`) together with the generated shape of `repo` and
`mapScopes` is the model; this file gives them their semantics.

`mapName p n = p ++ "/" ++ n` is the name map `return r.prefix + "/" + name`.
The older body (`path.Join`, empty name kept) is modelled too (`mapNameOld`,
with Go's `path.Clean`), so that the model follows whichever body the source has.
Iterators are event lists pushed into a consumer (`Select.feed`).
-/
import OciModel.Base
import OciModel.Scope
import OciModel.Select
import OciModel.Generated.Sub
import OciModel.Generated.Iface

namespace OciModel.Sub
open OciModel.Generated.Sub OciModel.Generated OciModel.Scope
open OciModel.Select (Call Env Ev feed)

/-- `prefix + "/" + name`. -/
def mapName (p n : Bytes) : Bytes := p ++ 47 :: n

/-- `strings.CutPrefix(s, pre)`. -/
def cutPrefix : Bytes → Bytes → Option Bytes
  | [], s => some s
  | _ :: _, [] => none
  | a :: pre, b :: s => if a = b then cutPrefix pre s else none

/-- `strings.CutPrefix(repo, prefix + "/")`. -/
def stripName (p n : Bytes) : Option Bytes := cutPrefix (p ++ [47]) n

/-! ### Go's `path.Clean` / `path.Join` (for the older body of `repo`) -/

/-- Process path components onto a stack (top first): "" and "." are dropped,
".." pops a real component, is dropped at the root of a rooted path and is kept
otherwise. -/
def cleanComps (rooted : Bool) : List Bytes → List Bytes → List Bytes
  | [], st => st
  | c :: cs, st =>
    if c = [] ∨ c = [46] then cleanComps rooted cs st
    else if c = [46, 46] then
      match st with
      | top :: rest => if top = [46, 46] then cleanComps rooted cs (c :: st) else cleanComps rooted cs rest
      | [] => if rooted then cleanComps rooted cs [] else cleanComps rooted cs [c]
    else cleanComps rooted cs (c :: st)

def joinSlash : List Bytes → Bytes
  | [] => []
  | [c] => c
  | c :: cs => c ++ 47 :: joinSlash cs

/-- `path.Clean`. -/
def pathClean (s : Bytes) : Bytes :=
  if s = [] then [46]
  else
    let rooted := s.head? = some 47
    let body := joinSlash (cleanComps rooted (Scope.splitOn 47 s) []).reverse
    if rooted then 47 :: body else if body = [] then [46] else body

/-- `path.Join(a, b)`. -/
def pathJoin (a b : Bytes) : Bytes :=
  if a = [] ∧ b = [] then []
  else if a = [] then pathClean b
  else if b = [] then pathClean a
  else pathClean (a ++ 47 :: b)

/-- `if name == "" { return "" }; return path.Join(prefix, name)`. -/
def mapNameOld (p n : Bytes) : Bytes := if n = [] then [] else pathJoin p n

/-- The name map named by the generated `repoMap`; `none` = not a modelled body. -/
def mapNameBy (mode : String) (p n : Bytes) : Option Bytes :=
  if mode == "concat" then some (mapName p n)
  else if mode == "pathJoinKeepEmpty" then some (mapNameOld p n)
  else none

/-! ### Scopes -/

/-- The closure inside `mapScopes`: repository-typed scopes get their resource mapped. -/
def mapRS (f : Bytes → Bytes) (r : RS) : RS :=
  if r.1 = tyRepository then (r.1, f r.2.1, r.2.2) else r

def guardPassesUnlimited (g : String) : Bool :=
  g == "scope.IsEmpty() || scope.IsUnlimited()" || g == "scope.IsUnlimited() || scope.IsEmpty()"

def guardKnown (g : String) : Bool := g == "scope.IsEmpty()" || guardPassesUnlimited g

/-- `mapScopes` on the scope found in the context: passed through when the guard
says so; otherwise `scope.Len()` (which panics on the unlimited scope) and
`NewScope` of the mapped items of `scope.Iter()`. -/
def mapScopesBy (guard : String) (f : Bytes → Bytes) (s : Scope) : Outcome Scope :=
  if !guardKnown guard then .err "guard"
  else if Scope.isEmpty s then .ok s
  else if s.unlimited then
    (if guardPassesUnlimited guard then .ok s else .panic "Len called on unlimited scope")
  else .ok (newScope ((iter s).map (mapRS f)))

/-- The fixed code: empty and unlimited scopes pass through. -/
def mapScopes (p : Bytes) (s : Scope) : Scope :=
  if Scope.isEmpty s || s.unlimited then s else newScope ((iter s).map (mapRS (mapName p)))

/-! ### Methods -/

inductive Res where
  /-- one call on the wrapped registry, made with this scope in the context; its
  result is returned unchanged (for `Repositories`: filtered and stripped) -/
  | ok (call : Call) (scope : Scope)
  | panic
  | stuck
  deriving DecidableEq, Repr

/-- One method of the wrapper, for the view with prefix `p ≠ ""`. -/
def call (p : Bytes) (env : Env) (ctxScope : Scope) (r : Row) : Res :=
  if !r.shapeKnown || !(r.callArgs.all (·.known)) || !mapScopesBodyKnown then .stuck
  else
    match mapNameBy repoMap p [] with
    | none => .stuck
    | some _ =>
      let f := fun n => (mapNameBy repoMap p n).getD []
      match (if r.mapScopes then mapScopesBy mapScopesGuard f ctxScope else .ok ctxScope) with
      | .panic _ => .panic
      | .err _ => .stuck
      | .ok sc => .ok ⟨r.callee, r.callArgs.map fun a => if a.mapped then f (env a.name) else env a.name⟩ sc

/-- The callback `Repositories` hands to the backend's iterator:
`if err != nil { yield("", err); return false }; if p, ok := CutPrefix(repo, prefix+"/"); ok { return yield(p, nil) }; return true`. -/
def stripCb {ε σ} (p : Bytes) (cb : σ → Ev ε → σ × Bool) : σ → Ev ε → σ × Bool
  | s, .error e => ((cb s (.error e)).1, false)
  | s, .item n =>
    match stripName p n with
    | some x => cb s (.item x)
    | none => (s, true)

/-- What a consumer of the view's listing can see of a backend listing. -/
def visible {ε} (p : Bytes) : List (Ev ε) → List (Ev ε)
  | [] => []
  | .error e :: _ => [.error e]
  | .item n :: es =>
    match stripName p n with
    | some x => .item x :: visible p es
    | none => visible p es

/-- The view's listing from `start` over a backend lister `L` (error-free case). -/
def viewList (p : Bytes) (L : Bytes → List Bytes) (start : Bytes) : List Bytes :=
  (L (mapName p start)).filterMap (stripName p)

/-! ### Specification -/

def isRepoParam (ip : String) : Bool := ip == "repo" || ip == "fromRepo" || ip == "toRepo"

/-- Arguments that must be mapped: every repository name, and the start point
of a repository listing. -/
def specMapped (m ip : String) : Bool := isRepoParam ip || (m == "Repositories" && ip == "startAfter")

def ifaceParamNames (m : String) : Option (List String) :=
  (Iface.methodParams.lookup m).map fun ps => ps.map (·.1)

def RowOk (r : Row) : Bool :=
  r.shapeKnown && r.mapScopes && r.callee == r.method &&
  r.callArgs.map (·.name) == r.params && r.callArgs.all (·.known) &&
  (match ifaceParamNames r.method with
   | none => false
   | some ips => ips.length == r.params.length && r.callArgs.map (·.mapped) == ips.map (specMapped r.method)) &&
  r.shape == (if r.method == "Repositories" then "strip" else "direct")

def TableOk (t : List Row) : Bool := t.all RowOk

/-- The backend arguments the property demands for method `m`. -/
def specArgs (p : Bytes) (env : Env) (m : String) (ips ps : List String) : List Bytes :=
  (ips.zip ps).map fun x => if specMapped m x.1 then mapName p (env x.2) else env x.2

/-- A lister that meets the listing contract over the repository set `repos`:
ascending, strictly after the start point it is given, complete. -/
structure ListsSpec (L : Bytes → List Bytes) (repos : List Bytes) : Prop where
  sorted : ∀ s, (L s).Pairwise fun a b => compare a b = .lt
  mem : ∀ s x, x ∈ L s ↔ x ∈ repos ∧ compare s x = .lt

end OciModel.Sub
