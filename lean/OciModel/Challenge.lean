/-
Model of `ociregistry/ociauth/challenge.go`: the `Www-Authenticate` parser
(`parseWWWAuthenticate`, `skipSpace`, `expectToken`, `expectTokenOrQuoted`) and
the selection among several header values (`challengeFromResponse`).

Byte for byte: Go strings are byte strings and every index expression of the Go
code works on bytes. `strings.ToLower` is only ever applied to tokens, which are
ASCII by `isToken`, so it is ASCII lower-casing. The `params` map is a list of
pairs, the first binding of a key is the live one (`setParam` removes the older
binding, as a map assignment does).

The only Go site that allocates and indexes is the escape loop of
`expectTokenOrQuoted` (`p := make([]byte, len(s)-1)`, `p[j] = b`). The model
keeps the capacity and the write index explicit (`escLoop`) and answers
`Outcome.panic` on an out-of-range write, so that "the parser never panics"
(`Props/C11.lean`, `challenge_total`) is a statement with content.

Core Lean only (this file is linked into the driver).
-/
import OciModel.Base

namespace OciModel.Challenge

/-- `strings.ContainsRune(" \t\"(),/:;<=>?@[]\\{}", c)`. -/
def separators : Bytes :=
  [32, 9, 34, 40, 41, 44, 47, 58, 59, 60, 61, 62, 63, 64, 91, 93, 92, 123, 125]

/-- `strings.ContainsRune(" \t\r\n", c)`. -/
def spaces : Bytes := [32, 9, 13, 10]

/-- `octetTypes[c]&isToken != 0`: a CHAR (0..127) that is neither a CTL
(0..31, 127) nor a separator. -/
def isTokenByte (c : UInt8) : Bool :=
  c.toNat ≤ 127 && !(c.toNat ≤ 31 || c.toNat = 127) && !separators.contains c

/-- `octetTypes[c]&isSpace != 0`. -/
def isSpaceByte (c : UInt8) : Bool := spaces.contains c

def skipSpace (s : Bytes) : Bytes := s.dropWhile isSpaceByte

def expectToken (s : Bytes) : Bytes × Bytes := (s.takeWhile isTokenByte, s.dropWhile isTokenByte)

def lowerByte (c : UInt8) : UInt8 := if 65 ≤ c.toNat ∧ c.toNat ≤ 90 then c + 32 else c

def lower (s : Bytes) : Bytes := s.map lowerByte

/-- The second loop of `expectTokenOrQuoted`, entered after the first backslash.
`cap` is `len(p)`, `acc` the bytes written so far in reverse (`j = acc.length`),
`esc` Go's `escape`. Running off the end is Go's `return "", ""`, rendered `none`. -/
def escLoop (cap : Nat) : Bool → Bytes → Bytes → Outcome (Option (Bytes × Bytes))
  | _, _, [] => .ok none
  | true, acc, b :: rest =>
    if acc.length < cap then escLoop cap false (b :: acc) rest
    else .panic "expectTokenOrQuoted: p[j] out of range"
  | false, acc, b :: rest =>
    if b = 92 then escLoop cap true acc rest
    else if b = 34 then .ok (some (acc.reverse, rest))
    else if acc.length < cap then escLoop cap false (b :: acc) rest
    else .panic "expectTokenOrQuoted: p[j] out of range"

/-- The first loop of `expectTokenOrQuoted` over `s` (the text after the opening
quote, of length `n`): `pre` is `s[:i]` reversed. -/
def quotedLoop (n : Nat) : Bytes → Bytes → Outcome (Option (Bytes × Bytes))
  | _, [] => .ok none
  | pre, b :: rest =>
    if b = 34 then .ok (some (pre.reverse, rest))
    else if b = 92 then escLoop (n - 1) true pre rest
    else quotedLoop n (b :: pre) rest

/-- `expectTokenOrQuoted`; `none` stands for Go's `("", "")` of an unterminated
quoted string (the caller refuses an empty value either way). -/
def expectTokenOrQuoted (s : Bytes) : Outcome (Option (Bytes × Bytes)) :=
  match s with
  | 34 :: rest => quotedLoop rest.length [] rest
  | _ => .ok (some (expectToken s))

/-- Parsed header: lower-cased scheme and the parameter map. -/
structure AuthHeader where
  scheme : Bytes
  params : List (Bytes × Bytes)
  deriving DecidableEq, Repr

def setParam (ps : List (Bytes × Bytes)) (k v : Bytes) : List (Bytes × Bytes) :=
  (k, v) :: ps.filter (fun p => p.1 != k)

/-- `h.params[k]` (the empty string when absent). -/
def param (h : AuthHeader) (k : Bytes) : Bytes := (h.params.lookup k).getD []

/-- The `for len(s) > 0` loop of `parseWWWAuthenticate`. The result is the final
parameter map and the unparsed rest, `none` for `return nil`. `fuel` bounds the
number of iterations (each consumes at least one byte). -/
def paramLoop : Nat → List (Bytes × Bytes) → Bytes → Outcome (Option (List (Bytes × Bytes) × Bytes))
  | 0, ps, s => .ok (some (ps, s))
  | fuel + 1, ps, s =>
    if s = [] then .ok (some (ps, s)) else
    let (pkey, s1) := expectToken (skipSpace s)
    if pkey = [] then .ok none else
    match s1 with
    | 61 :: s2 =>
      match expectTokenOrQuoted s2 with
      | .panic m => .panic m
      | .err e => .err e
      | .ok none => .ok none
      | .ok (some (pvalue, s3)) =>
        if pvalue = [] then .ok none else
        let ps' := setParam ps (lower pkey) pvalue
        match skipSpace s3 with
        | 44 :: s4 => paramLoop fuel ps' s4
        | s4 => .ok (some (ps', s4))
    | _ => .ok none

/-- `parseWWWAuthenticate`; `.ok none` is Go's `nil`. -/
def parseWWWAuthenticate (header : Bytes) : Outcome (Option AuthHeader) :=
  let (scheme, s) := expectToken header
  if scheme = [] then .ok none else
  match paramLoop (header.length + 1) [] (skipSpace s) with
  | .panic m => .panic m
  | .err e => .err e
  | .ok none => .ok none
  | .ok (some (ps, rest)) => if rest = [] then .ok (some ⟨lower scheme, ps⟩) else .ok none

def sBasic : Bytes := [98, 97, 115, 105, 99]
def sBearer : Bytes := [98, 101, 97, 114, 101, 114]
def kRealm : Bytes := [114, 101, 97, 108, 109]
def kService : Bytes := [115, 101, 114, 118, 105, 99, 101]
def kScope : Bytes := [115, 99, 111, 112, 101]

/-- The parsed headers that `challengeFromResponse` looks at: parse failures and
schemes other than basic/bearer are skipped. A panic of the parser would
propagate; it is kept so that totality is proved, not assumed. -/
def accepted : List Bytes → Outcome (List AuthHeader)
  | [] => .ok []
  | v :: vs =>
    match parseWWWAuthenticate v with
    | .panic m => .panic m
    | .err e => .err e
    | .ok r =>
      match accepted vs with
      | .panic m => .panic m
      | .err e => .err e
      | .ok l =>
        match r with
        | some h => if h.scheme = sBasic || h.scheme = sBearer then .ok (h :: l) else .ok l
        | none => .ok l

/-- The selection loop of `challengeFromResponse` over the accepted headers:
`cur` is Go's `h`. -/
def selectLoop : Option AuthHeader → List AuthHeader → Option AuthHeader
  | cur, [] => cur
  | none, h1 :: rest => selectLoop (some h1) rest
  | some h, h1 :: rest =>
    if h1.scheme = sBasic && h.scheme = sBearer then selectLoop (some h1) rest
    else selectLoop (some h) rest

/-- `challengeFromResponse` on the values of `resp.Header["Www-Authenticate"]`. -/
def challengeFromResponse (values : List Bytes) : Outcome (Option AuthHeader) :=
  match accepted values with
  | .panic m => .panic m
  | .err e => .err e
  | .ok l => .ok (selectLoop none l)

end OciModel.Challenge
