/-
The link between the CLIENT half of `Wire` (`Call.request1`, and the first request of the three listings
in `clientCallS`) and the source: the regenerated table `OciModel/Generated/ClientReq.lean` lists every
`ocirequest.Request{…}` composite literal of package ociclient with the function it stands in, its `Kind`
constant and, for every other field, the provenance of its value (which parameter, which field of the
receiver, which conversion).

* `rowRequest env row args` — the `ReqCodec.Request` a row denotes when the enclosing function is called
  with the arguments `args` (indexed like the Go parameters, `ctx` is 0). Fields are set one by one on the
  zero request, so the order of the keys in the literal does not matter (as in Go).
* `fnOf c`, `argsOf c` — the ociclient method a `Wire.Call` models and the arguments it is called with
  (the correspondence `Call` ↔ `ociregistry.Interface` of `Call.site` in `WireSource.lean`, client side).
* `siteRequest cfg c` — the request denoted by THE literal of that method (`none` unless there is exactly one).
* `Call.rreq cfg c` — the `ocirequest.Request` the model hands to `newRequest` for `c`, as a record.

`Props/C03C.lean` states that the two agree for all arguments, and that `Call.request1` is `newRequest`
(`mkReq?`) of it, followed by the headers/body the method sets afterwards (`Call.decorate`).

What is interpreted, not translated (trusted, small): `string(x)` is the identity on strings,
`digest.FromBytes` is `Cfg.H`, the receiver's `listPageSize` is `Pager.effectivePageSize cfg.pageSize`
(`ociclient.New`, client.go:105-115), the names of the fields of `ocirequest.Request` (`setField`) and of
its kinds (`SrvHandlers.kindName`, which C06S ties to the constants of `ocirequest`).
-/
import OciModel.Wire
import OciModel.Pager
import OciModel.SrvHandlers
import OciModel.Generated.ClientReq

namespace OciModel.Wire
open OciModel OciModel.ReqCodec OciModel.RespCodec
open OciModel.Generated.ClientReq (Prov Row)

/-! ## What a row of the table denotes -/

/-- An actual argument of an ociclient method. -/
inductive Val where
  | str (b : Bytes)        -- `string`, `ociregistry.Digest`, `[]byte`
  | int (i : Int)          -- `int`, `int64`
  | desc (d : Desc)        -- `ociregistry.Descriptor`
  | opaque                 -- `context.Context`, `io.Reader`: nothing a request may be built from
  deriving DecidableEq, Repr

/-- The names a literal may use besides the parameters. -/
structure Env where
  recv : String → Option Val              -- a field of the receiver
  app : String → Val → Option Val         -- a conversion / one-argument function

/-- own, structurally recursive `xs[i]?` (reduces under `rfl` with symbolic elements) -/
def nth {α : Type} : List α → Nat → Option α
  | [], _ => none
  | x :: _, 0 => some x
  | _ :: xs, i + 1 => nth xs i

def descField (d : Desc) (f : String) : Option Val :=
  if f == "Digest" then some (.str d.digest)
  else if f == "MediaType" then some (.str d.mediaType)
  else if f == "Size" then some (.int d.size)
  else none

/-- the value of a field's expression (`none`: the table says `other`, or the expression is ill-typed) -/
def evalProv (env : Env) (args : List Val) : Prov → Option Val
  | .param i => nth args i
  | .paramField i f =>
    match nth args i with
    | some (.desc d) => descField d f
    | _ => none
  | .recv f => env.recv f
  | .app fn p =>
    match evalProv env args p with
    | some v => env.app fn v
    | none => none
  | .other _ => none

/-- `r.<f> = v` for a field of `ocirequest.Request` (request.go:51-112), with Go's typing -/
def setField (r : Request) (f : String) (v : Val) : Option Request :=
  match v with
  | .str b =>
    if f == "Repo" then some { r with repo := b }
    else if f == "Digest" then some { r with digest := b }
    else if f == "Tag" then some { r with tag := b }
    else if f == "FromRepo" then some { r with fromRepo := b }
    else if f == "UploadID" then some { r with uploadID := b }
    else if f == "ListLast" then some { r with listLast := b }
    else none
  | .int n => if f == "ListN" then some { r with listN := n } else none
  | _ => none

def kindOfName (s : String) : Option Kind := SrvHandlers.allKinds.find? fun k => SrvHandlers.kindName k == s

def setFields (env : Env) (args : List Val) : List (String × Prov) → Request → Option Request
  | [], r => some r
  | (f, p) :: fs, r =>
    match evalProv env args p with
    | some v =>
      match setField r f v with
      | some r' => setFields env args fs r'
      | none => none
    | none => none

/-- **The request a literal denotes**: the zero `Request` with the literal's kind, then every field set. -/
def rowRequest (env : Env) (row : Row) (args : List Val) : Option Request :=
  match kindOfName row.kind with
  | some k => setFields env args row.fields { kind := k }
  | none => none

/-- the literals in method `fn` of `*client` -/
def rowsOf (fn : String) : List Row :=
  Generated.ClientReq.requests.filter fun row => row.recv == "client" && row.fn == fn

/-! ## The client's environment and the calls -/

/-- `string(x)`, `digest.FromBytes(x)`, `c.listPageSize` -/
def clientEnv (cfg : Cfg) : Env where
  recv f := if f == "listPageSize" then some (.int (Pager.effectivePageSize cfg.pageSize)) else none
  app fn v :=
    match v with
    | .str b =>
      if fn == "string" then some (.str b)
      else if fn == "digest.FromBytes" then some (.str (cfg.H b))
      else none
    | _ => none

/-- The method of `*client` whose request literal a call's first request comes from (`""`: none — the
upload steps build their requests from the `Location` they were given, writer.go:214-218, 321-347).
`GetBlobRange(…, 0, <0)` is `GetBlob` (reader.go:38-40). -/
def fnOf : Call → String
  | .getBlob .. => "GetBlob"
  | .getBlobRange _ _ o0 o1 => if o0 = 0 ∧ o1 < 0 then "GetBlob" else "GetBlobRange"
  | .getManifest .. => "GetManifest"
  | .getTag .. => "GetTag"
  | .resolveBlob .. => "ResolveBlob"
  | .resolveManifest .. => "ResolveManifest"
  | .resolveTag .. => "ResolveTag"
  | .pushBlob .. => "PushBlob"
  | .pushManifest .. => "PushManifest"
  | .mountBlob .. => "MountBlob"
  | .deleteBlob .. => "DeleteBlob"
  | .deleteManifest .. => "DeleteManifest"
  | .deleteTag .. => "DeleteTag"
  | .startUpload .. => "PushBlobChunked"
  | .tags .. => "Tags"
  | .repositories .. => "Repositories"
  | .referrers .. => "Referrers"
  | .uploadInfo .. | .uploadChunk .. | .uploadCommit .. => ""

/-- The arguments of that method, in the order of its Go parameters (`ctx` first). -/
def argsOf : Call → List Val
  | .getBlob repo dg => [.opaque, .str repo, .str dg]
  | .getBlobRange repo dg o0 o1 =>
    if o0 = 0 ∧ o1 < 0 then [.opaque, .str repo, .str dg] else [.opaque, .str repo, .str dg, .int o0, .int o1]
  | .getManifest repo dg => [.opaque, .str repo, .str dg]
  | .getTag repo tag => [.opaque, .str repo, .str tag]
  | .resolveBlob repo dg => [.opaque, .str repo, .str dg]
  | .resolveManifest repo dg => [.opaque, .str repo, .str dg]
  | .resolveTag repo tag => [.opaque, .str repo, .str tag]
  | .pushBlob repo d _ => [.opaque, .str repo, .desc d, .opaque]
  | .pushManifest repo tag content mt => [.opaque, .str repo, .str tag, .str content, .str mt]
  | .mountBlob fromRepo toRepo dg => [.opaque, .str fromRepo, .str toRepo, .str dg]
  | .deleteBlob repo dg => [.opaque, .str repo, .str dg]
  | .deleteManifest repo dg => [.opaque, .str repo, .str dg]
  | .deleteTag repo tag => [.opaque, .str repo, .str tag]
  | .startUpload repo cs => [.opaque, .str repo, .int cs]
  | .tags repo start => [.opaque, .str repo, .str start]
  | .repositories start => [.opaque, .str start]
  | .referrers repo dg => [.opaque, .str repo, .str dg, .str []]
  | .uploadInfo .. | .uploadChunk .. | .uploadCommit .. => []

/-- **The request the source builds for a call**: the one denoted by the only literal of the method. -/
def siteRequest (cfg : Cfg) (c : Call) : Option Request :=
  match rowsOf (fnOf c) with
  | [row] => rowRequest (clientEnv cfg) row (argsOf c)
  | _ => none

/-- The calls whose first request `Call.request1` builds from a literal. -/
def covered : Call → Bool
  | .uploadInfo .. | .uploadChunk .. | .uploadCommit .. => false
  | .tags .. | .repositories .. | .referrers .. => false
  | _ => true

/-- The listings: their first request is built from a literal too, inside `clientCallS`. -/
def coveredList : Call → Bool
  | .tags .. | .repositories .. | .referrers .. => true
  | _ => false

/-- **The `ocirequest.Request` of the model** for a call, as a record: every field. -/
def Call.rreq (cfg : Cfg) : Call → Request
  | .getBlob repo dg | .getBlobRange repo dg _ _ => { kind := .blobGet, repo := repo, digest := dg }
  | .getManifest repo dg => { kind := .manifestGet, repo := repo, digest := dg }
  | .getTag repo tag => { kind := .manifestGet, repo := repo, tag := tag }
  | .resolveBlob repo dg => { kind := .blobHead, repo := repo, digest := dg }
  | .resolveManifest repo dg => { kind := .manifestHead, repo := repo, digest := dg }
  | .resolveTag repo tag => { kind := .manifestHead, repo := repo, tag := tag }
  | .pushBlob repo _ _ | .startUpload repo _ => { kind := .blobStartUpload, repo := repo }
  | .pushManifest repo tag content _ => { kind := .manifestPut, repo := repo, tag := tag, digest := cfg.H content }
  | .mountBlob fromRepo toRepo dg => { kind := .blobMount, repo := toRepo, digest := dg, fromRepo := fromRepo }
  | .deleteBlob repo dg => { kind := .blobDelete, repo := repo, digest := dg }
  | .deleteManifest repo dg => { kind := .manifestDelete, repo := repo, digest := dg }
  | .deleteTag repo tag => { kind := .manifestDelete, repo := repo, tag := tag }
  | .tags repo start =>
    { kind := .tagsList, repo := repo, listN := Pager.effectivePageSize cfg.pageSize, listLast := start }
  | .repositories start => { kind := .catalogList, listN := Pager.effectivePageSize cfg.pageSize, listLast := start }
  | .referrers repo dg =>
    { kind := .referrersList, repo := repo, digest := dg, listN := Pager.effectivePageSize cfg.pageSize }
  -- not covered: no `ocirequest.Request` is built for the upload steps (the value is a placeholder)
  | .uploadInfo .. | .uploadChunk .. | .uploadCommit .. => { kind := .ping }

/-- The method refuses before it builds a request (`PushManifest` with an empty media type, writer.go:38-40). -/
def Call.proceeds : Call → Bool
  | .pushManifest _ _ _ mt => mt ≠ []
  | _ => true

/-- What the method adds to the `http.Request` that `newRequest` made: the `Range` header of `GetBlobRange`
(reader.go:50-54), content type, length and body of `PushManifest` (writer.go:53-58). -/
def Call.decorate : Call → HttpRequest → HttpRequest
  | .getBlobRange _ _ o0 o1 => fun rq => { rq with range := if o0 = 0 ∧ o1 < 0 then [] else cliRangeHdr o0 o1 }
  | .pushManifest _ _ content mt => fun rq => { rq with contentType := mt, contentLength := content.length, body := content }
  | _ => id

/-- The digest `read` / `resolve` hand to `descriptorFromResponse` as known: `rreq.Digest` (reader.go:95-104, 140). -/
def knownDigest : RespCodec.Call → Option Bytes
  | .getBlob dg | .getManifest dg | .resolveBlob dg | .resolveManifest dg => some dg
  | .getTag | .resolveTag => some []
  | _ => none

/-! ## Well-formedness of the table -/

/-- the methods of `*client` that build a request from a literal, as the model knows them -/
def modelledFns : List String :=
  ["GetBlob", "GetBlobRange", "GetManifest", "GetTag", "ResolveBlob", "ResolveManifest", "ResolveTag", "PushBlob",
   "PushManifest", "MountBlob", "DeleteBlob", "DeleteManifest", "DeleteTag", "PushBlobChunked", "Tags", "Repositories",
   "Referrers"]

def provKnown : Prov → Bool
  | .other _ => false
  | .app _ p => provKnown p
  | _ => true

/-- Every literal is in a modelled method of `*client`, every modelled method has exactly one, every kind
is a kind of `ocirequest` and no value has an unknown provenance. -/
def tableOk (rows : List Row) : Bool :=
  rows.all (fun row => row.recv == "client" && modelledFns.contains row.fn &&
    (kindOfName row.kind).isSome && row.fields.all fun f => provKnown f.2) &&
  modelledFns.all fun f => (rows.filter fun row => row.recv == "client" && row.fn == f).length == 1

/-- an argument has the shape of its parameter's Go type -/
def valTyped (ty : String) : Val → Bool
  | .str _ => ty == "string" || ty == "ociregistry.Digest" || ty == "[]byte"
  | .int _ => ty == "int" || ty == "int64"
  | .desc _ => ty == "ociregistry.Descriptor"
  | .opaque => ty == "context.Context" || ty == "io.Reader"

def argsTyped : List (String × String) → List Val → Bool
  | [], [] => true
  | p :: ps, v :: vs => valTyped p.2 v && argsTyped ps vs
  | _, _ => false

/-! ## Lemmas -/

/-- `construct` prints the tag when there is one: with a tag, the digest of a manifest request is not sent. -/
theorem mkReq?_manifestPut_digest (repo tag d : Bytes) :
    mkReq? { kind := .manifestPut, repo := repo, tag := tag, digest := if tag = [] then d else [] } =
    mkReq? { kind := .manifestPut, repo := repo, tag := tag, digest := d } := by
  have h : mkReq { kind := .manifestPut, repo := repo, tag := tag, digest := if tag = [] then d else [] } =
      mkReq { kind := .manifestPut, repo := repo, tag := tag, digest := d } := by
    by_cases ht : tag = [] <;> simp [mkReq, construct, tagOrDigest, ht]
  simp only [mkReq?, h]

/-- `construct` prints no query for a referrers request: `ListN` is not sent. -/
theorem mkReq_referrers_listN (repo dg : Bytes) (n m : Int) :
    mkReq { kind := .referrersList, repo := repo, digest := dg, listN := n } =
    mkReq { kind := .referrersList, repo := repo, digest := dg, listN := m } := by
  simp [mkReq, construct]

theorem mkReq?_referrers_listN (repo dg : Bytes) (n m : Int) :
    mkReq? { kind := .referrersList, repo := repo, digest := dg, listN := n } =
    mkReq? { kind := .referrersList, repo := repo, digest := dg, listN := m } := by
  simp only [mkReq?, mkReq_referrers_listN repo dg n m]

/-- the literal of a covered call, evaluated: all arguments symbolic -/
theorem siteRequest_eq (cfg : Cfg) (c : Call) (h : covered c = true ∨ coveredList c = true) :
    siteRequest cfg c = some (c.rreq cfg) := by
  cases c
  case getBlobRange repo dg o0 o1 =>
    by_cases hd : o0 = 0 ∧ o1 < 0
    · simp only [siteRequest, fnOf, argsOf, if_pos hd]; rfl
    · simp only [siteRequest, fnOf, argsOf, if_neg hd]; rfl
  case uploadInfo => simp [covered, coveredList] at h
  case uploadChunk => simp [covered, coveredList] at h
  case uploadCommit => simp [covered, coveredList] at h
  -- one line per method, so that a changed literal is named by the failing line
  case getBlob => rfl
  case getManifest => rfl
  case getTag => rfl
  case resolveBlob => rfl
  case resolveManifest => rfl
  case resolveTag => rfl
  case pushBlob => rfl
  case pushManifest => rfl
  case mountBlob => rfl
  case deleteBlob => rfl
  case deleteManifest => rfl
  case deleteTag => rfl
  case startUpload => rfl
  case tags => rfl
  case repositories => rfl
  case referrers => rfl

/-- the model's first request is `newRequest` of the model's record, decorated -/
theorem request1_eq (cfg : Cfg) (c : Call) (h : covered c = true) :
    Call.request1 cfg c = if c.proceeds then (mkReq? (c.rreq cfg)).map c.decorate else none := by
  cases c
  case pushManifest repo tag content mt =>
    by_cases hm : mt = []
    · simp [Call.request1, Call.proceeds, hm]
    · simp only [Call.request1, Call.proceeds, Call.rreq, if_neg hm, mkReq?_manifestPut_digest]
      simp [hm, Call.decorate]
  case getBlobRange => simp [Call.request1, Call.proceeds, Call.rreq, Call.decorate]
  case uploadInfo => simp [covered] at h
  case uploadChunk => simp [covered] at h
  case uploadCommit => simp [covered] at h
  case tags => simp [covered] at h
  case repositories => simp [covered] at h
  case referrers => simp [covered] at h
  all_goals simp [Call.request1, Call.proceeds, Call.rreq, Call.decorate]

/-- `argsOf` follows the regenerated signature of the method: arity and the shape of every parameter's type -/
theorem argsOf_typed (c : Call) (h : covered c = true ∨ coveredList c = true) :
    ∃ row, rowsOf (fnOf c) = [row] ∧ argsTyped row.params (argsOf c) = true := by
  cases c
  case getBlobRange repo dg o0 o1 =>
    by_cases hd : o0 = 0 ∧ o1 < 0
    · simp only [fnOf, argsOf, if_pos hd]; exact ⟨_, rfl, rfl⟩
    · simp only [fnOf, argsOf, if_neg hd]; exact ⟨_, rfl, rfl⟩
  case uploadInfo => simp [covered, coveredList] at h
  case uploadChunk => simp [covered, coveredList] at h
  case uploadCommit => simp [covered, coveredList] at h
  all_goals exact ⟨_, rfl, rfl⟩

end OciModel.Wire
