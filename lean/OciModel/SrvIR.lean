/-
The intermediate representation into which `translator/srvhandlers.go` abstracts the
request handlers of `ociregistry/ociserver` (one `Prog` per handler or helper that
receives the `http.ResponseWriter`). Only types live here: the regenerated table
`OciModel/Generated/SrvHandlers.lean` imports this file, and the semantics
(`OciModel/SrvHandlers.lean`) imports both.

The abstraction keeps exactly what C06's structural clauses talk about:
  * calls on the backend (`r.backend.M(…)`) and on readers/writers obtained from it, with the
    provenance of every argument;
  * acquisition, `defer x.Close()` and `x.Close()` of backend readers/writers;
  * the `err` variable (only as "nil / not nil"), because the accepted release shapes depend on
    the error check that follows an acquisition;
  * headers set on, and the status written to, the response;
  * control flow: `if`/`switch` as a choice with an abstract condition, `return`.
Everything else is dropped by the translator, and anything that touches one of the tracked
objects in a way it does not recognise becomes `Prog.unknownShape` (which fails every obligation).
Core Lean only (linked into the `ocimodel` driver).
-/
namespace OciModel.SrvIR

/-- Where an argument of a backend call comes from. -/
inductive Prov where
  /-- `rreq.F`, possibly through a type conversion (`ociregistry.Digest(rreq.Digest)`) -/
  | field (f : String)
  /-- a local variable every assignment of which is `rreq.F`, and which is otherwise left at
  (or set to) the empty string -/
  | fieldOrEmpty (f : String)
  /-- a string literal -/
  | lit (s : String)
  /-- an `ociregistry.Descriptor{…}` literal; the payload is the provenance of its `Digest` -/
  | desc (digest : Prov)
  /-- anything else (printed source text) -/
  | other (text : String)
  deriving DecidableEq, Repr

/-- One call site. `method` is the method of `ociregistry.Interface`, or `BlobWriter.M` /
`BlobReader.M` for a method with arguments called on a reader/writer obtained from the backend.
`args` excludes the leading `ctx`. `canFail`: the method's last result is an `error`. -/
structure Call where
  method  : String
  args    : List Prov
  canFail : Bool
  deriving DecidableEq, Repr

/-- Abstract conditions of `if` and `switch`. -/
inductive Cond where
  | errSet                    -- `err != nil`
  | tagSet                    -- `rreq.Tag != ""`
  | opt (name : String)       -- `r.opts.name` (bool), `r.opts.name != nil`, `r.opts.name > 0`
  | not (c : Cond)
  | or (a b : Cond)
  | and (a b : Cond)
  | unknown (text : String)   -- anything else: both outcomes possible
  deriving DecidableEq, Repr

/-- What a `return` returns. -/
inductive Ret where
  | ok        -- `return nil`
  | fail      -- `return <an error constructor>`
  | errVar    -- `return err` (or the result of a delegated handler)
  | unknown   -- anything else
  deriving DecidableEq, Repr

inductive Atom where
  /-- a backend call that yields no reader/writer; `bindsErr`: its error result is assigned to `err` -/
  | call (c : Call) (bindsErr : Bool)
  /-- `v, err := r.backend.M(…)` (or `=`) where `M` returns a `BlobReader`/`BlobWriter` -/
  | acquire (v : String) (c : Call)
  /-- `err` is assigned by something the model does not interpret -/
  | havocErr
  /-- `defer v.Close()` -/
  | deferClose (v : String)
  /-- `v.Close()`; `bindsErr`: `err := v.Close()` / `if err := v.Close(); …` -/
  | close (v : String) (bindsErr : Bool)
  /-- `resp.Header().Set(name, …)` -/
  | header (name : String)
  /-- `resp.WriteHeader(code)` -/
  | status (code : Nat)
  /-- bytes written to the response (`resp.Write`, `io.Copy(resp, …)`) -/
  | body
  /-- `err := r.fn(…, resp, …)` where `fn` is another translated method of `*registry` -/
  | invoke (fn : String)
  deriving DecidableEq, Repr

/-- A statement list in continuation form: `atom a k` is `a; k`, `alt c p q k` is
`if c { p } else { q }; k` (`k` runs after whichever branch falls through). -/
inductive Prog where
  | nil
  | atom (a : Atom) (k : Prog)
  | ret (r : Ret)
  | alt (c : Cond) (p q k : Prog)
  | unknownShape (why : String)
  deriving DecidableEq, Repr

end OciModel.SrvIR
