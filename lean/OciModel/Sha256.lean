/-
SHA-256, executable, so that the driver can realise the model's hash parameter
`H` concretely (the theorems never assume anything about `H`; the harness checks
this implementation against Go's crypto/sha256 on every content it uses).
-/
import OciModel.Base

namespace OciModel.Sha256

def K : Array UInt32 := #[
  0x428a2f98, 0x71374491, 0xb5c0fbcf, 0xe9b5dba5, 0x3956c25b, 0x59f111f1, 0x923f82a4, 0xab1c5ed5,
  0xd807aa98, 0x12835b01, 0x243185be, 0x550c7dc3, 0x72be5d74, 0x80deb1fe, 0x9bdc06a7, 0xc19bf174,
  0xe49b69c1, 0xefbe4786, 0x0fc19dc6, 0x240ca1cc, 0x2de92c6f, 0x4a7484aa, 0x5cb0a9dc, 0x76f988da,
  0x983e5152, 0xa831c66d, 0xb00327c8, 0xbf597fc7, 0xc6e00bf3, 0xd5a79147, 0x06ca6351, 0x14292967,
  0x27b70a85, 0x2e1b2138, 0x4d2c6dfc, 0x53380d13, 0x650a7354, 0x766a0abb, 0x81c2c92e, 0x92722c85,
  0xa2bfe8a1, 0xa81a664b, 0xc24b8b70, 0xc76c51a3, 0xd192e819, 0xd6990624, 0xf40e3585, 0x106aa070,
  0x19a4c116, 0x1e376c08, 0x2748774c, 0x34b0bcb5, 0x391c0cb3, 0x4ed8aa4a, 0x5b9cca4f, 0x682e6ff3,
  0x748f82ee, 0x78a5636f, 0x84c87814, 0x8cc70208, 0x90befffa, 0xa4506ceb, 0xbef9a3f7, 0xc67178f2]

def rotr (x : UInt32) (n : UInt32) : UInt32 := (x >>> n) ||| (x <<< (32 - n))

def pad (msg : Bytes) : Bytes :=
  let l := msg.length
  let k := (119 - l % 64) % 64          -- zero bytes so that total ≡ 56 (mod 64)
  let bits := l * 8
  let lenBytes := (List.range 8).map fun i => UInt8.ofNat (bits >>> (8 * (7 - i)))
  msg ++ [0x80] ++ List.replicate k 0 ++ lenBytes

def word (a b c d : UInt8) : UInt32 :=
  (a.toUInt32 <<< 24) ||| (b.toUInt32 <<< 16) ||| (c.toUInt32 <<< 8) ||| d.toUInt32

def wordsOf : Bytes → List UInt32
  | a :: b :: c :: d :: rest => word a b c d :: wordsOf rest
  | _ => []

def schedule (block : Array UInt32) : Array UInt32 := Id.run do
  let mut w := block
  for i in [16:64] do
    let w15 := w[i - 15]!
    let w2 := w[i - 2]!
    let s0 := rotr w15 7 ^^^ rotr w15 18 ^^^ (w15 >>> 3)
    let s1 := rotr w2 17 ^^^ rotr w2 19 ^^^ (w2 >>> 10)
    w := w.push (w[i - 16]! + s0 + w[i - 7]! + s1)
  return w

def compress (h : Array UInt32) (block : Array UInt32) : Array UInt32 := Id.run do
  let w := schedule block
  let mut a := h[0]!; let mut b := h[1]!; let mut c := h[2]!; let mut d := h[3]!
  let mut e := h[4]!; let mut f := h[5]!; let mut g := h[6]!; let mut hh := h[7]!
  for i in [0:64] do
    let s1 := rotr e 6 ^^^ rotr e 11 ^^^ rotr e 25
    let ch := (e &&& f) ^^^ ((~~~ e) &&& g)
    let t1 := hh + s1 + ch + K[i]! + w[i]!
    let s0 := rotr a 2 ^^^ rotr a 13 ^^^ rotr a 22
    let maj := (a &&& b) ^^^ (a &&& c) ^^^ (b &&& c)
    let t2 := s0 + maj
    hh := g; g := f; f := e; e := d + t1; d := c; c := b; b := a; a := t1 + t2
  return #[h[0]! + a, h[1]! + b, h[2]! + c, h[3]! + d, h[4]! + e, h[5]! + f, h[6]! + g, h[7]! + hh]

def blocks : Nat → List UInt32 → List (Array UInt32)
  | 0, _ => []
  | _, [] => []
  | fuel + 1, ws => (ws.take 16).toArray :: blocks fuel (ws.drop 16)

def hashWords (msg : Bytes) : Array UInt32 :=
  let ws := wordsOf (pad msg)
  (blocks (ws.length / 16 + 1) ws).foldl compress
    #[0x6a09e667, 0xbb67ae85, 0x3c6ef372, 0xa54ff53a, 0x510e527f, 0x9b05688c, 0x1f83d9ab, 0x5be0cd19]

/-- Lower-case hex of the 32-byte digest, as bytes. -/
def hex (msg : Bytes) : Bytes :=
  let hx (n : UInt32) : UInt8 := let v := n.toUInt8 &&& 15; if v < 10 then 48 + v else 87 + v
  (hashWords msg).toList.flatMap fun (w : UInt32) =>
    ([28, 24, 20, 16, 12, 8, 4, 0] : List UInt32).map fun (s : UInt32) => hx (w >>> s)

/-- `digest.FromBytes`: `"sha256:" ++ hex`. -/
def digest (msg : Bytes) : Bytes := [115, 104, 97, 50, 53, 54, 58] ++ hex msg

end OciModel.Sha256
