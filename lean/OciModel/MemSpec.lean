/-
The reference registry C02 speaks of, as a SPECIFICATION: a second, simpler machine than the
model of the code (`Mem.lean`), to which `MemSpecLemmas.lean` proves `Mem` equal in behaviour.

`Mem.lean` models ocimem's data (association lists in insertion order, erase-then-cons
updates, upload buffers with a `committed` flag). Here a registry is, per repository name, three
partial maps AS FUNCTIONS — blobs by digest, manifests by digest, tags to descriptors — plus the
upload sessions. A partial map that is never enumerated (blobs, upload sessions) is just the
function `Bytes → Option β` (`FMap`); one that is listed (repositories, manifests, tags) is the
function together with its domain as a set (`PMap`: a duplicate-free list in no meaningful order,
every listing sorts it), so that "what is bound" can be enumerated. `step` is written from C02's
sentences:

* pushed things are found until deleted (`set` / `del` on functions);
* a tag resolves to the last manifest pushed under it (`tags.set t desc` overrides);
* an image/index manifest is accepted only if it decoded and every referenced blob/manifest is
  present (`checkRefs`); a subject may dangle;
* referrers = the stored manifests naming the digest as subject, ascending by digest;
* listings = the bound keys strictly after the start, ascending (each once: `dom` has no duplicates);
* the documented error codes; in immutable-tags mode, tags cannot be moved or deleted and what a
  tag reaches (`reaches`, through stored manifests) cannot be deleted or stored again under
  another media type.

Shared with `Mem.lean`: the vocabulary only — `Op`, `Out`, `Desc`, `RefInfo`, `Decoded`, and the pure
helpers `sortBytes`, `insertDesc`, `checkDescData`, `checkDescNil`, `freshID`, `octetStream`,
`ManifestDecode.decodeRefs` — never `Mem.step`, `Mem.State` or the association-list functions.
The hash `H` is a parameter; nothing is assumed about it.
-/
import OciModel.Mem

namespace OciModel.MemSpec
open OciModel.Mem (Desc RefInfo Decoded Op Out sortBytes insertDesc checkDescData checkDescNil
  freshID octetStream)

/-! ### Partial maps: a function and its domain -/

/-- A finite partial map from byte strings: `get` is the map, `dom` the set of bound keys
(`WF`: exactly the keys where `get` is defined, each once). -/
structure PMap (β : Type) where
  get : Bytes → Option β
  dom : List Bytes

namespace PMap
variable {β : Type}

def empty : PMap β := ⟨fun _ => none, []⟩

/-- Bind `k` to `v` (overriding). -/
def set (p : PMap β) (k : Bytes) (v : β) : PMap β :=
  ⟨fun x => if x = k then some v else p.get x, k :: p.dom.filter (fun x => x != k)⟩

/-- Unbind `k`. -/
def del (p : PMap β) (k : Bytes) : PMap β :=
  ⟨fun x => if x = k then none else p.get x, p.dom.filter (fun x => x != k)⟩

/-- The bound values (in no meaningful order). -/
def values (p : PMap β) : List β := p.dom.filterMap p.get

/-- The bound keys strictly after `start`, ascending. -/
def keysAfter (p : PMap β) (start : Bytes) : List Bytes :=
  sortBytes (p.dom.filter fun k => compare start k == .lt)

/-- `dom` is the support of `get`, without repetition. -/
def WF (p : PMap β) : Prop := p.dom.Nodup ∧ ∀ k, k ∈ p.dom ↔ (p.get k).isSome = true

end PMap

/-- A partial map that is never enumerated (blobs, upload sessions) is just the function. -/
abbrev FMap (β : Type) := Bytes → Option β

namespace FMap
variable {β : Type}
def empty : FMap β := fun _ => none
def set (p : FMap β) (k : Bytes) (v : β) : FMap β := fun x => if x = k then some v else p x
def del (p : FMap β) (k : Bytes) : FMap β := fun x => if x = k then none else p x
end FMap

/-! ### State -/

/-- A stored blob. -/
structure Content where
  mediaType : Bytes
  data      : Bytes

/-- A stored manifest: its bytes, the subject it names (`[]`: none) and what it refers to. -/
structure Manifest where
  mediaType : Bytes
  data      : Bytes
  subject   : Bytes
  refs      : List RefInfo

/-- An upload session: the bytes so far, the offset the next chunk must start at (`-1`: any),
and the error every later commit reports once the session failed or was cancelled. -/
structure Session where
  buf    : Bytes
  expect : Int
  failed : Option String

structure Repo where
  blobs     : FMap Content
  manifests : PMap Manifest
  tags      : PMap Desc
  uploads   : FMap Session

structure State where
  immutableTags : Bool
  repos  : PMap Repo
  nextID : Nat

def emptyRepo : Repo := ⟨.empty, .empty, .empty, .empty⟩
def init (immutable : Bool) : State := ⟨immutable, .empty, 0⟩

def State.put (s : State) (r : Bytes) (rp : Repo) : State := { s with repos := s.repos.set r rp }

section
variable (H : Bytes → Bytes)

def Content.desc (b : Content) : Desc := ⟨b.mediaType, H b.data, b.data.length⟩
def Manifest.desc (b : Manifest) : Desc := ⟨b.mediaType, H b.data, b.data.length⟩

/-- A repository exists once a creating operation named it with a valid name (`none`: `NAME_INVALID`). -/
def ensureRepo (s : State) (r : Bytes) : Option (State × Repo) :=
  if !Ref.isRepo r then none
  else match s.repos.get r with
    | some rp => some (s, rp)
    | none => some (s.put r emptyRepo, emptyRepo)

def findBlob (s : State) (r d : Bytes) : Except String Content :=
  match s.repos.get r with
  | none => .error "NAME_UNKNOWN"
  | some rp => match rp.blobs d with
    | none => .error "BLOB_UNKNOWN"
    | some b => .ok b

def findManifest (s : State) (r d : Bytes) : Except String Manifest :=
  match s.repos.get r with
  | none => .error "NAME_UNKNOWN"
  | some rp => match rp.manifests.get d with
    | none => .error "MANIFEST_UNKNOWN"
    | some b => .ok b

def findSession (s : State) (r id : Bytes) : Option (Repo × Session) :=
  match s.repos.get r with
  | none => none
  | some rp => (rp.uploads id).map fun b => (rp, b)

def State.putSession (s : State) (r : Bytes) (rp : Repo) (id : Bytes) (b : Session) : State :=
  s.put r { rp with uploads := rp.uploads.set id b }

/-- Every referenced descriptor looks sane, referenced blobs (kind 0) and manifests (kind 1) are
present, a subject (kind 2) may dangle; the result is the subject named last. -/
def checkRefs (rp : Repo) : List RefInfo → Bytes → Option Bytes
  | [], subj => some subj
  | r :: rest, subj =>
    if !checkDescNil r.desc then none
    else if r.kind = 0 then (if (rp.blobs r.desc.digest).isSome then checkRefs rp rest subj else none)
    else if r.kind = 1 then (if (rp.manifests.get r.desc.digest).isSome then checkRefs rp rest subj else none)
    else checkRefs rp rest r.desc.digest

/-- What a stored manifest refers to when its bytes are read as the media type `mt` a referring
descriptor declares for it, where that is not the one it is stored with (F42). -/
def refsAs (b : Manifest) (mt : Bytes) : List RefInfo :=
  if mt = b.mediaType then []
  else match ManifestDecode.decodeRefs mt b.data with
    | .refs rs => rs
    | _ => []

/-- Is `target` among the given references, or among those of a stored manifest they lead to
(through index entries and subjects), to depth `fuel`? -/
def reaches (man : Bytes → Option Manifest) (target : Bytes) : Nat → List RefInfo → Bool
  | 0, _ => false
  | fuel + 1, refs => refs.any fun r =>
      r.desc.digest = target ||
      (decide (r.kind = 1 ∨ r.kind = 2) &&
        match man r.desc.digest with
        | some b => reaches man target fuel b.refs || reaches man target fuel (refsAs b r.desc.mediaType)
        | none => false)

/-- Is `target` reachable from a tag of the repository? (Depth `3 * #manifests + 2` exhausts the
stored manifests: `MemImmutable.Reach.bounded`.) -/
def tagged (rp : Repo) (target : Bytes) : Bool :=
  reaches rp.manifests.get target (3 * rp.manifests.dom.length + 2) (rp.tags.values.map fun d => ⟨1, d⟩)

def decRefs : Decoded → Option (List RefInfo)
  | .opaque => some []
  | .malformed => none
  | .refs rs => some rs

/-- The bytes `[o0, o1)` of `data`; an end that is negative or past the end means "to the end". -/
def range (data : Bytes) (o0 o1 : Int) : Option Bytes :=
  let n : Int := data.length
  let o1' := if o1 < 0 ∨ o1 > n then n else o1
  if o0 < 0 ∨ o0 > o1' then none else some ((data.drop o0.toNat).take (o1' - o0).toNat)

def step (s : State) : Op → State × Out
  /- reads: pushed things are found until deleted -/
  | .getBlob r d =>
    match findBlob s r d with
    | .error e => (s, .err e)
    | .ok b => (s, .okRead (b.desc H) b.data)
  | .getBlobRange r d o0 o1 =>
    match findBlob s r d with
    | .error e => (s, .err e)
    | .ok b =>
      match range b.data o0 o1 with
      | none => (s, .err "ERR")
      | some part => (s, .okRead (b.desc H) part)
  | .getManifest r d =>
    match findManifest s r d with
    | .error e => (s, .err e)
    | .ok b => (s, .okRead (b.desc H) b.data)
  | .getTag r t =>
    match s.repos.get r with
    | none => (s, .err "NAME_UNKNOWN")
    | some rp =>
      match rp.tags.get t with
      | none => (s, .err "MANIFEST_UNKNOWN")
      | some d =>
        match rp.manifests.get d.digest with
        | none => (s, .err "MANIFEST_UNKNOWN")
        | some b => (s, .okRead (b.desc H) b.data)
  | .resolveBlob r d =>
    match findBlob s r d with
    | .error e => (s, .err e)
    | .ok b => (s, .okDesc (b.desc H))
  | .resolveManifest r d =>
    match findManifest s r d with
    | .error e => (s, .err e)
    | .ok b => (s, .okDesc (b.desc H))
  | .resolveTag r t =>
    match s.repos.get r with
    | none => (s, .err "NAME_UNKNOWN")
    | some rp =>
      match rp.tags.get t with
      | none => (s, .err "MANIFEST_UNKNOWN")
      | some d => (s, .okDesc d)
  /- blobs -/
  | .pushBlob r desc data =>
    match checkDescData H desc data with
    | some e => (s, .err e)
    | none =>
      match ensureRepo s r with
      | none => (s, .err "NAME_INVALID")
      | some (s1, rp) =>
        (s1.put r { rp with blobs := rp.blobs.set desc.digest ⟨desc.mediaType, data⟩ }, .okDesc desc)
  /- upload sessions -/
  | .pushChunked r =>
    match ensureRepo s r with
    | none => (s, .err "NAME_INVALID")
    | some (s1, rp) =>
      let id := freshID s1.nextID
      ({ s1.putSession r rp id ⟨[], 0, none⟩ with nextID := s1.nextID + 1 }, .okWriter id)
  | .resume r id offset =>
    match ensureRepo s r with
    | none => (s, .err "NAME_INVALID")
    | some (s1, rp) =>
      match rp.uploads id with
      | some b => (s1.putSession r rp id { b with expect := offset }, .okWriter id)
      | none =>
        if id = [] then
          let id' := freshID s1.nextID
          ({ s1.putSession r rp id' ⟨[], offset, none⟩ with nextID := s1.nextID + 1 }, .okWriter id')
        else (s1.putSession r rp id ⟨[], offset, none⟩, .okWriter id)
  | .wWrite r id data =>
    match findSession s r id with
    | none => (s, .err "NO-WRITER")
    | some (rp, b) =>
      if b.expect ≠ -1 ∧ (b.buf.length : Int) ≠ b.expect then (s, .err "RANGE_INVALID")
      else (s.putSession r rp id { b with buf := b.buf ++ data, expect := -1 }, .okN data.length)
  | .wSize r id =>
    match findSession s r id with
    | none => (s, .err "NO-WRITER")
    | some (_, b) => (s, .okN b.buf.length)
  | .wCancel r id =>
    match findSession s r id with
    | none => (s, .err "NO-WRITER")
    | some (rp, b) => (s.putSession r rp id { b with failed := some "ERR" }, .okUnit)
  | .wCommit r id dig =>
    match findSession s r id with
    | none => (s, .err "NO-WRITER")
    | some (rp, b) =>
      match b.failed with
      | some e => (s, .err e)
      | none =>
        if H b.buf ≠ dig then (s.putSession r rp id { b with failed := some "DIGEST_INVALID" }, .err "DIGEST_INVALID")
        else (s.put r { rp with blobs := rp.blobs.set dig ⟨octetStream, b.buf⟩ }, .okDesc ⟨octetStream, dig, b.buf.length⟩)
  | .mount fromR toR d =>
    match ensureRepo s toR with
    | none => (s, .err "NAME_INVALID")
    | some (s1, _) =>
      match findBlob s1 fromR d with
      | .error e => (s1, .err e)
      | .ok b =>
        match s1.repos.get toR with
        | none => (s1, .err "NAME_UNKNOWN")
        | some rto => (s1.put toR { rto with blobs := rto.blobs.set d b }, .okDesc (b.desc H))
  /- manifests and tags -/
  | .pushManifest r t data mt dec =>
    match ensureRepo s r with
    | none => (s, .err "NAME_INVALID")
    | some (s1, rp) =>
      let dig := H data
      let desc : Desc := ⟨mt, dig, data.length⟩
      if t ≠ [] ∧ !Ref.isTag t then (s1, .err "ERR")
      else
        match (if t ≠ [] ∧ s1.immutableTags then rp.tags.get t else none) with
        | some cur =>
          -- an immutable tag: only the very same manifest again
          if cur.digest = dig ∧ cur.mediaType = mt then (s1, .okDesc cur) else (s1, .err "DENIED")
        | none =>
          -- immutable-tags mode: content reachable from a tag keeps the media type it was stored with
          let retyped : Bool := s1.immutableTags &&
            (match rp.manifests.get dig with
             | some b => b.mediaType != mt && tagged rp dig
             | none => false)
          if retyped then (s1, .err "DENIED")
          else if (checkDescData H desc data).isSome then (s1, .err "ERR")
          else
            match decRefs dec with
            | none => (s1, .err "ERR")
            | some rs =>
              match checkRefs rp rs [] with
              | none => (s1, .err "ERR")
              | some subj =>
                let rp1 := { rp with manifests := rp.manifests.set dig ⟨mt, data, subj, rs⟩ }
                let rp2 := if t ≠ [] then { rp1 with tags := rp1.tags.set t desc } else rp1
                (s1.put r rp2, .okDesc desc)
  /- deletes: deleted things are not found -/
  | .deleteBlob r d =>
    match s.repos.get r with
    | none => (s, .err "NAME_UNKNOWN")
    | some rp =>
      if (rp.blobs d).isNone then (s, .err "BLOB_UNKNOWN")
      else if s.immutableTags ∧ tagged rp d then (s, .err "DENIED")
      else (s.put r { rp with blobs := rp.blobs.del d }, .okUnit)
  | .deleteManifest r d =>
    match s.repos.get r with
    | none => (s, .err "NAME_UNKNOWN")
    | some rp =>
      if (rp.manifests.get d).isNone then (s, .err "MANIFEST_UNKNOWN")
      else if s.immutableTags ∧ tagged rp d then (s, .err "DENIED")
      else (s.put r { rp with manifests := rp.manifests.del d }, .okUnit)
  | .deleteTag r t =>
    match s.repos.get r with
    | none => (s, .err "NAME_UNKNOWN")
    | some rp =>
      if (rp.tags.get t).isNone then (s, .err "MANIFEST_UNKNOWN")
      else if s.immutableTags then (s, .err "DENIED")
      else (s.put r { rp with tags := rp.tags.del t }, .okUnit)
  /- listings and referrers -/
  | .repositories start => (s, .okList (s.repos.keysAfter start))
  | .tags r start =>
    match s.repos.get r with
    | none => (s, .err "NAME_UNKNOWN")
    | some rp => (s, .okList (rp.tags.keysAfter start))
  | .referrers r d =>
    match s.repos.get r with
    | none => (s, .err "NAME_UNKNOWN")
    | some rp =>
      (s, .okDescs (((rp.manifests.values.filter fun b => b.subject = d).map fun b => b.desc H).foldr insertDesc []))

def run (s : State) : List Op → State × List Out
  | [] => (s, [])
  | op :: rest =>
    let (s1, o) := step H s op
    let (s2, os) := run s1 rest
    (s2, o :: os)

end

/-! ### The abstraction function: what a state of the code's model denotes -/

section Abs
variable {β γ : Type}

/-- An association list as a partial map: first match wins, the domain is the key list. -/
def absMap (f : β → γ) (m : List (Bytes × β)) : PMap γ :=
  ⟨fun k => (Mem.alookup k m).map f, m.map (·.1)⟩

/-- An association list as a function: first match wins. -/
def absFun (f : β → γ) (m : List (Bytes × β)) : FMap γ := fun k => (Mem.alookup k m).map f

def absBlob (b : Mem.Blob) : Content := ⟨b.mediaType, b.data⟩
def absManifest (b : Mem.Blob) : Manifest := ⟨b.mediaType, b.data, b.subject, b.refs⟩
/-- The `committed` flag of a buffer is never read: it is not part of the abstract state. -/
def absBuffer (b : Mem.Buffer) : Session := ⟨b.buf, b.checkStart, b.commitErr⟩

def absRepo (rp : Mem.Repo) : Repo :=
  ⟨absFun absBlob rp.blobs, absMap absManifest rp.manifests, absMap id rp.tags, absFun absBuffer rp.uploads⟩

def abs (s : Mem.State) : State := ⟨s.immutableTags, absMap absRepo s.repos, s.nextID⟩

end Abs

end OciModel.MemSpec
