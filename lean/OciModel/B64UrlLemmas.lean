/-
Lemmas about the concrete base64url codec (`OciModel/B64Url.lean`): the round trip
`decode (encode x) = some x`, and that an encoding is slash-free and non-empty for a
non-empty input — the three facts the request-codec theorems assume of their
`b64`/`unb64` parameters.
-/
import OciModel.B64Url
namespace OciModel.B64Url

/-- The 6-bit groups of the input. -/
def vals : Bytes → List Nat
  | [] => []
  | [a] => [a.toNat / 4, (a.toNat % 4) * 16]
  | [a, b] => [a.toNat / 4, (a.toNat % 4) * 16 + b.toNat / 16, (b.toNat % 16) * 4]
  | a :: b :: c :: rest =>
    a.toNat / 4 :: ((a.toNat % 4) * 16 + b.toNat / 16) ::
      ((b.toNat % 16) * 4 + c.toNat / 64) :: (c.toNat % 64) :: vals rest

theorem encode_eq_map (x : Bytes) : encode x = (vals x).map encChar := by
  induction x using vals.induct with
  | case1 => rfl
  | case2 a => rfl
  | case3 a b => rfl
  | case4 a b c rest ih => simp [encode, vals, ih]

theorem vals_lt (x : Bytes) : ∀ n ∈ vals x, n < 64 := by
  induction x using vals.induct with
  | case1 => simp [vals]
  | case2 a =>
    have := a.toNat_lt
    simp only [vals, List.mem_cons, List.not_mem_nil, or_false]
    rintro n (rfl | rfl) <;> omega
  | case3 a b =>
    have := a.toNat_lt
    have := b.toNat_lt
    simp only [vals, List.mem_cons, List.not_mem_nil, or_false]
    rintro n (rfl | rfl | rfl) <;> omega
  | case4 a b c rest ih =>
    have := a.toNat_lt
    have := b.toNat_lt
    have := c.toNat_lt
    simp only [vals, List.mem_cons]
    rintro n (rfl | rfl | rfl | rfl | h)
    · omega
    · omega
    · omega
    · omega
    · exact ih n h

theorem decChar_encChar : ∀ n, n < 64 → decChar (encChar n) = some n := by decide
theorem encChar_alphabet : ∀ n, n < 64 →
    encChar n ≠ 47 ∧ encChar n ≠ 13 ∧ encChar n ≠ 10 := by decide

theorem ofNat_toNat (a : UInt8) : UInt8.ofNat a.toNat = a := by simp

theorem decodeVals_vals (x : Bytes) : decodeVals (vals x) = some x := by
  induction x using vals.induct with
  | case1 => rfl
  | case2 a =>
    have := a.toNat_lt
    simp only [vals, decodeVals, Option.some.injEq, List.cons.injEq, and_true]
    rw [show a.toNat / 4 * 4 + a.toNat % 4 * 16 / 16 = a.toNat by omega, ofNat_toNat]
  | case3 a b =>
    have := a.toNat_lt
    have := b.toNat_lt
    simp only [vals, decodeVals, Option.some.injEq, List.cons.injEq, and_true]
    rw [show a.toNat / 4 * 4 + (a.toNat % 4 * 16 + b.toNat / 16) / 16 = a.toNat by omega,
      show (a.toNat % 4 * 16 + b.toNat / 16) % 16 * 16 + b.toNat % 16 * 4 / 4 = b.toNat by omega,
      ofNat_toNat, ofNat_toNat]
    exact ⟨rfl, rfl⟩
  | case4 a b c rest ih =>
    have := a.toNat_lt
    have := b.toNat_lt
    have := c.toNat_lt
    simp only [vals, decodeVals, ih, Option.map_some, Option.some.injEq, List.cons.injEq, and_true]
    rw [show a.toNat / 4 * 4 + (a.toNat % 4 * 16 + b.toNat / 16) / 16 = a.toNat by omega,
      show (a.toNat % 4 * 16 + b.toNat / 16) % 16 * 16 + (b.toNat % 16 * 4 + c.toNat / 64) / 4 =
        b.toNat by omega,
      show (b.toNat % 16 * 4 + c.toNat / 64) % 4 * 64 + c.toNat % 64 = c.toNat by omega,
      ofNat_toNat, ofNat_toNat, ofNat_toNat]
    exact ⟨rfl, rfl, rfl⟩

theorem mapM_decChar (vs : List Nat) (h : ∀ n ∈ vs, n < 64) :
    (vs.map encChar).mapM decChar = some vs := by
  induction vs with
  | nil => rfl
  | cons v vs ih =>
    simp only [List.map_cons, List.mapM_cons, decChar_encChar v (h v (by simp)),
      ih (fun n hn => h n (List.mem_cons_of_mem _ hn))]
    rfl

/-- `base64.RawURLEncoding`: decoding an encoding gives the input back. -/
theorem decode_encode (x : Bytes) : decode (encode x) = some x := by
  have hf : (encode x).filter (fun c => c != 13 && c != 10) = encode x := by
    rw [List.filter_eq_self]
    intro c hc
    rw [encode_eq_map] at hc
    obtain ⟨n, hn, rfl⟩ := List.mem_map.mp hc
    have := encChar_alphabet n (vals_lt x n hn)
    simp [this.2.1, this.2.2]
  unfold decode
  simp only [hf]
  rw [encode_eq_map, mapM_decChar _ (vals_lt x)]
  exact decodeVals_vals x

theorem encode_no_slash (x : Bytes) : (47 : UInt8) ∉ encode x := by
  intro hc
  rw [encode_eq_map] at hc
  obtain ⟨n, hn, h⟩ := List.mem_map.mp hc
  exact (encChar_alphabet n (vals_lt x n hn)).1 h

theorem encode_ne_nil (x : Bytes) (h : x ≠ []) : encode x ≠ [] := by
  match x, h with
  | [a], _ => simp [encode]
  | [a, b], _ => simp [encode]
  | a :: b :: c :: rest, _ => simp [encode]

end OciModel.B64Url
