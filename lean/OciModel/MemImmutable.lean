/-
Helper lemmas for the immutable-tags properties (C14) of the `ocimem` model.

Nothing here changes `OciModel/Mem.lean`; `H` stays a parameter everywhere and
is never assumed to be anything unless a hypothesis says so.

Contents
* association-list laws (`alookup`/`ainsert`/`aerase`);
* `getRepo`/`putRepo`/`makeRepo` laws;
* the digest invariant `Inv`;
* `RepoStep`: the seven ways one operation can change one repository, and
  `step_eff`: every operation changes every repository by a `RepoStep` (or not
  at all). All state-machine theorems are consequences of `step_eff`;
* `refersTo` versus the inductive reachability relation `Reach`, and the fact
  that the fuel `manifests.length + 2` used by `taggedRefersTo` is never a
  restriction (`Reach.bounded`).
-/
import OciModel.Mem

namespace OciModel.Mem

/-! ### Association lists -/

section alist
variable {β : Type}

theorem alookup_aerase_eq (k : Bytes) (m : List (Bytes × β)) : alookup k (aerase k m) = none := by
  induction m with
  | nil => rfl
  | cons p rest ih =>
    obtain ⟨k', v⟩ := p
    by_cases h : k' = k <;> simp [aerase, alookup, h, ih]

theorem alookup_aerase_ne {k k' : Bytes} (h : k' ≠ k) (m : List (Bytes × β)) :
    alookup k' (aerase k m) = alookup k' m := by
  induction m with
  | nil => rfl
  | cons p rest ih =>
    obtain ⟨k0, v⟩ := p
    by_cases h0 : k0 = k
    · subst h0
      have : k0 ≠ k' := fun e => h e.symm
      simp [aerase, alookup, ih, this]
    · by_cases h1 : k0 = k'
      · subst h1; simp [aerase, alookup, h0]
      · simp [aerase, alookup, h0, h1, ih]

theorem alookup_ainsert_eq (k : Bytes) (v : β) (m : List (Bytes × β)) :
    alookup k (ainsert k v m) = some v := by
  simp [ainsert, alookup]

theorem alookup_ainsert_ne {k k' : Bytes} (h : k' ≠ k) (v : β) (m : List (Bytes × β)) :
    alookup k' (ainsert k v m) = alookup k' m := by
  have : k ≠ k' := fun e => h e.symm
  simp [ainsert, alookup, this, alookup_aerase_ne h]

theorem alookup_ainsert (k k' : Bytes) (v : β) (m : List (Bytes × β)) :
    alookup k' (ainsert k v m) = if k' = k then some v else alookup k' m := by
  by_cases h : k' = k
  · subst h; simp [alookup_ainsert_eq]
  · simp [h, alookup_ainsert_ne h]

theorem alookup_aerase (k k' : Bytes) (m : List (Bytes × β)) :
    alookup k' (aerase k m) = if k' = k then none else alookup k' m := by
  by_cases h : k' = k
  · subst h; simp [alookup_aerase_eq]
  · simp [h, alookup_aerase_ne h]

/-- Whatever is found after erasing a key was there before. -/
theorem alookup_of_aerase {k k' : Bytes} {m : List (Bytes × β)} {v : β}
    (h : alookup k' (aerase k m) = some v) : alookup k' m = some v := by
  rw [alookup_aerase] at h
  split at h
  · cases h
  · exact h

theorem length_aerase_le (k : Bytes) (m : List (Bytes × β)) : (aerase k m).length ≤ m.length := by
  induction m with
  | nil => exact Nat.le_refl _
  | cons p rest ih =>
    obtain ⟨k', v⟩ := p
    by_cases h : k' = k
    · simp [aerase, h]; omega
    · simp [aerase, h]; omega

theorem length_aerase_lt {k : Bytes} {m : List (Bytes × β)} {v : β} (h : alookup k m = some v) :
    (aerase k m).length < m.length := by
  induction m with
  | nil => cases h
  | cons p rest ih =>
    obtain ⟨k', v'⟩ := p
    by_cases h' : k' = k
    · have := length_aerase_le k rest
      simp [aerase, h']; omega
    · simp [alookup, h'] at h
      have := ih h
      simp [aerase, h']; omega

end alist

/-! ### Repositories in a state -/

theorem getRepo_putRepo (s : State) (r r' : Bytes) (rp : Repo) :
    getRepo (putRepo s r rp) r' = if r' = r then some rp else getRepo s r' := by
  simp only [getRepo, putRepo]; exact alookup_ainsert r r' rp s.repos

theorem getRepo_putRepo_eq (s : State) (r : Bytes) (rp : Repo) :
    getRepo (putRepo s r rp) r = some rp := by simp [getRepo_putRepo]

theorem getRepo_putRepo_ne (s : State) {r r' : Bytes} (h : r' ≠ r) (rp : Repo) :
    getRepo (putRepo s r rp) r' = getRepo s r' := by simp [getRepo_putRepo, h]

@[simp] theorem putRepo_immutableTags (s : State) (r : Bytes) (rp : Repo) :
    (putRepo s r rp).immutableTags = s.immutableTags := rfl

/-- `makeRepo` either finds the repository or creates it empty. -/
theorem makeRepo_cases {s s1 : State} {r : Bytes} {rp : Repo} (h : makeRepo s r = some (s1, rp)) :
    (s1 = s ∧ getRepo s r = some rp) ∨ (s1 = putRepo s r emptyRepo ∧ rp = emptyRepo ∧ getRepo s r = none) := by
  unfold makeRepo at h
  split at h
  · cases h
  · split at h
    · next rp' hg => cases h; exact .inl ⟨rfl, hg⟩
    · next hg => cases h; exact .inr ⟨rfl, rfl, hg⟩

theorem makeRepo_getRepo {s s1 : State} {r : Bytes} {rp : Repo} (h : makeRepo s r = some (s1, rp)) :
    getRepo s1 r = some rp := by
  rcases makeRepo_cases h with ⟨rfl, hg⟩ | ⟨rfl, rfl, _⟩
  · exact hg
  · exact getRepo_putRepo_eq _ _ _

theorem makeRepo_immutableTags {s s1 : State} {r : Bytes} {rp : Repo} (h : makeRepo s r = some (s1, rp)) :
    s1.immutableTags = s.immutableTags := by
  rcases makeRepo_cases h with ⟨rfl, _⟩ | ⟨rfl, _, _⟩ <;> rfl

theorem getBuffer_some {s : State} {r id : Bytes} {rp : Repo} {b : Buffer} (h : getBuffer s r id = some (rp, b)) :
    getRepo s r = some rp ∧ alookup id rp.uploads = some b := by
  unfold getBuffer at h
  split at h
  · cases h
  · next rp' hg =>
    cases hu : alookup id rp'.uploads with
    | none => simp [hu] at h
    | some b' => simp [hu] at h; obtain ⟨rfl, rfl⟩ := h; exact ⟨hg, hu⟩

theorem blobFor_ok {s : State} {r d : Bytes} {b : Blob} (h : blobFor s r d = .ok b) :
    ∃ rp, getRepo s r = some rp ∧ alookup d rp.blobs = some b := by
  unfold blobFor at h
  split at h
  · cases h
  · next rp hg =>
    split at h
    · cases h
    · next b' hb => cases h; exact ⟨rp, hg, hb⟩

theorem manifestFor_ok {s : State} {r d : Bytes} {b : Blob} (h : manifestFor s r d = .ok b) :
    ∃ rp, getRepo s r = some rp ∧ alookup d rp.manifests = some b := by
  unfold manifestFor at h
  split at h
  · cases h
  · next rp hg =>
    split at h
    · cases h
    · next b' hb => cases h; exact ⟨rp, hg, hb⟩

/-! ### The digest invariant -/

section
variable (H : Bytes → Bytes)

/-- Every stored blob and manifest sits under the hash of its bytes. -/
def RepoInv (rp : Repo) : Prop :=
  (∀ k b, alookup k rp.blobs = some b → H b.data = k) ∧
  (∀ k b, alookup k rp.manifests = some b → H b.data = k)

/-- The digest invariant: in every repository every stored blob/manifest `b`
under key `k` has `H b.data = k`. -/
def Inv (s : State) : Prop := ∀ r rp, getRepo s r = some rp → RepoInv H rp

theorem RepoInv_empty : RepoInv H emptyRepo :=
  ⟨fun _ _ h => by simp [emptyRepo, alookup] at h, fun _ _ h => by simp [emptyRepo, alookup] at h⟩

theorem Inv_init (imm : Bool) : Inv H (init imm) := fun _ _ h => by simp [init, getRepo, alookup] at h

/-! ### What one operation can do to one repository -/

/-- The references an operation's `Decoded` argument stands for (`none`: malformed). -/
def decRefs : Decoded → Option (List RefInfo)
  | .opaque => some []
  | .malformed => none
  | .refs rs => some rs

/-- The ways a single operation `op` changes a single repository (`s` is the state
the operation started from; it supplies the mode and, for `mount`, the source of
the blob). A stored manifest appears only through a `pushManifest` whose `Decoded`
argument gives its references, and — in immutable mode — never replaces an entry
reachable from a tag by one of another media type. -/
inductive RepoStep (s : State) (op : Op) : Repo → Repo → Prop
  | refl (rp : Repo) : RepoStep s op rp rp
  | uploads (rp : Repo) (ups : List (Bytes × Buffer)) : RepoStep s op rp { rp with uploads := ups }
  | insBlob (rp : Repo) (k : Bytes) (b : Blob) (ups : List (Bytes × Buffer)) :
      (Inv H s → H b.data = k) →
      RepoStep s op rp { rp with blobs := ainsert k b rp.blobs, uploads := ups }
  | insManifest (rp : Repo) (data mt subj : Bytes) (rs : List RefInfo) (dec : Decoded) :
      (∃ r t, op = .pushManifest r t data mt dec) → decRefs dec = some rs →
      (s.immutableTags = true → ∀ b0, alookup (H data) rp.manifests = some b0 →
        taggedRefersTo rp (H data) = true → b0.mediaType = mt) →
      checkRefs rp rs [] = some subj →
      RepoStep s op rp { rp with manifests := ainsert (H data) ⟨mt, data, subj, rs⟩ rp.manifests }
  | insTagged (rp : Repo) (t data mt subj : Bytes) (rs : List RefInfo) (dec : Decoded) :
      (∃ r t, op = .pushManifest r t data mt dec) → decRefs dec = some rs →
      (s.immutableTags = true → ∀ b0, alookup (H data) rp.manifests = some b0 →
        taggedRefersTo rp (H data) = true → b0.mediaType = mt) →
      (s.immutableTags = true → alookup t rp.tags = none) →
      checkRefs rp rs [] = some subj →
      RepoStep s op rp { rp with manifests := ainsert (H data) ⟨mt, data, subj, rs⟩ rp.manifests,
                                 tags := ainsert t ⟨mt, H data, data.length⟩ rp.tags }
  | delBlob (rp : Repo) (d : Bytes) :
      ¬ (s.immutableTags = true ∧ taggedRefersTo rp d = true) →
      RepoStep s op rp { rp with blobs := aerase d rp.blobs }
  | delManifest (rp : Repo) (d : Bytes) :
      ¬ (s.immutableTags = true ∧ taggedRefersTo rp d = true) →
      RepoStep s op rp { rp with manifests := aerase d rp.manifests }
  | delTag (rp : Repo) (t : Bytes) :
      s.immutableTags = false →
      RepoStep s op rp { rp with tags := aerase t rp.tags }

/-- The effect of an operation on the whole state: the mode is unchanged and every
repository is either untouched or changed by one `RepoStep` (a repository that
did not exist counts as empty). -/
def Eff (s : State) (op : Op) (s' : State) : Prop :=
  s'.immutableTags = s.immutableTags ∧
  ∀ r, getRepo s' r = getRepo s r ∨
    ∃ rp', getRepo s' r = some rp' ∧ RepoStep H s op ((getRepo s r).getD emptyRepo) rp'

theorem Eff.refl (s : State) (op : Op) : Eff H s op s := ⟨rfl, fun _ => .inl rfl⟩

theorem Eff.put {op : Op} {s : State} {r0 : Bytes} {rp rp' : Repo} (hg : getRepo s r0 = some rp)
    (hs : RepoStep H s op rp rp') : Eff H s op (putRepo s r0 rp') := by
  refine ⟨rfl, fun r => ?_⟩
  by_cases h : r = r0
  · subst h; exact .inr ⟨rp', getRepo_putRepo_eq _ _ _, by simpa [hg] using hs⟩
  · exact .inl (getRepo_putRepo_ne _ h _)

theorem Eff.make_self {op : Op} {s s1 : State} {r0 : Bytes} {rp : Repo} (hm : makeRepo s r0 = some (s1, rp)) :
    Eff H s op s1 := by
  rcases makeRepo_cases hm with ⟨rfl, _⟩ | ⟨rfl, rfl, hg⟩
  · exact Eff.refl H _ _
  · refine ⟨rfl, fun r => ?_⟩
    by_cases h : r = r0
    · subst h; exact .inr ⟨emptyRepo, getRepo_putRepo_eq _ _ _, by simpa [hg] using RepoStep.refl _⟩
    · exact .inl (getRepo_putRepo_ne _ h _)

theorem Eff.make_put {op : Op} {s s1 : State} {r0 : Bytes} {rp rp' : Repo} (hm : makeRepo s r0 = some (s1, rp))
    (hs : RepoStep H s op rp rp') : Eff H s op (putRepo s1 r0 rp') := by
  rcases makeRepo_cases hm with ⟨rfl, hg⟩ | ⟨rfl, rfl, hg⟩
  · exact Eff.put H hg hs
  · refine ⟨rfl, fun r => ?_⟩
    by_cases h : r = r0
    · subst h; exact .inr ⟨rp', getRepo_putRepo_eq _ _ _, by simpa [hg] using hs⟩
    · refine .inl ?_
      rw [getRepo_putRepo_ne _ h, getRepo_putRepo_ne _ h]

theorem Eff.nextID {op : Op} {s s' : State} (h : Eff H s op s') (n : Nat) : Eff H s op { s' with nextID := n } := h

end

/-! ### Every operation is an `Eff` -/

section
variable (H : Bytes → Bytes)

theorem putBuffer_eq (s : State) (r : Bytes) (rp : Repo) (id : Bytes) (b : Buffer) :
    putBuffer s r rp id b = putRepo s r { rp with uploads := ainsert id b rp.uploads } := rfl

theorem step_eff (s : State) (op : Op) : Eff H s op (step H s op).1 := by
  cases op with
  | getBlob r d => simp only [step]; split <;> exact Eff.refl H s _
  | getBlobRange r d o0 o1 =>
    simp only [step]; split
    · exact Eff.refl H s _
    · split <;> split <;> exact Eff.refl H s _
  | getManifest r d => simp only [step]; split <;> exact Eff.refl H s _
  | getTag r t =>
    simp only [step]; split
    · exact Eff.refl H s _
    · split
      · exact Eff.refl H s _
      · split <;> exact Eff.refl H s _
  | resolveBlob r d => simp only [step]; split <;> exact Eff.refl H s _
  | resolveManifest r d => simp only [step]; split <;> exact Eff.refl H s _
  | resolveTag r t =>
    simp only [step]; split
    · exact Eff.refl H s _
    · split <;> exact Eff.refl H s _
  | pushBlob r desc data =>
    simp only [step]; split
    · exact Eff.refl H s _
    · next hc =>
      split
      · exact Eff.refl H s _
      · next s1 rp hm =>
        refine Eff.make_put H hm (RepoStep.insBlob rp desc.digest _ rp.uploads fun _ => ?_)
        unfold checkDescData at hc
        split at hc
        · cases hc
        · split at hc
          · cases hc
          · next h2 => simpa using h2
  | pushChunked r =>
    simp only [step]; split
    · exact Eff.refl H s _
    · next s1 rp hm =>
      exact Eff.nextID H (Eff.make_put H hm (RepoStep.uploads rp _)) _
  | resume r id offset =>
    simp only [step]; split
    · exact Eff.refl H s _
    · next s1 rp hm =>
      split
      · exact Eff.make_put H hm (RepoStep.uploads rp _)
      · split
        · exact Eff.nextID H (Eff.make_put H hm (RepoStep.uploads rp _)) _
        · exact Eff.make_put H hm (RepoStep.uploads rp _)
  | wWrite r id data =>
    simp only [step]; split
    · exact Eff.refl H s _
    · next rp b hb =>
      split
      · exact Eff.refl H s _
      · exact Eff.put H (getBuffer_some hb).1 (RepoStep.uploads rp _)
  | wSize r id => simp only [step]; split <;> exact Eff.refl H s _
  | wCancel r id =>
    simp only [step]; split
    · exact Eff.refl H s _
    · next rp b hb => exact Eff.put H (getBuffer_some hb).1 (RepoStep.uploads rp _)
  | wCommit r id dig =>
    simp only [step]; split
    · exact Eff.refl H s _
    · next rp b hb =>
      split
      · exact Eff.refl H s _
      · split
        · exact Eff.put H (getBuffer_some hb).1 (RepoStep.uploads rp _)
        · next hd =>
          exact Eff.put H (getBuffer_some hb).1
            (RepoStep.insBlob rp dig _ _ fun _ => by simpa using hd)
  | mount fromR toR d =>
    simp only [step]; split
    · exact Eff.refl H s _
    · next s1 rp hm =>
      split
      · exact Eff.make_self H hm
      · next b hb =>
        split
        · exact Eff.make_self H hm
        · next rto hg =>
          have : rto = rp := by
            have := makeRepo_getRepo hm; rw [this] at hg; cases hg; rfl
          subst this
          refine Eff.make_put H hm (RepoStep.insBlob rto d b rto.uploads fun hinv => ?_)
          obtain ⟨rp0, hg0, hb0⟩ := blobFor_ok hb
          rcases makeRepo_cases hm with ⟨rfl, _⟩ | ⟨rfl, rfl, hn⟩
          · exact (hinv _ _ hg0).1 _ _ hb0
          · rw [getRepo_putRepo] at hg0; split at hg0
            · cases hg0; simp [emptyRepo, alookup] at hb0
            · exact (hinv _ _ hg0).1 _ _ hb0
  | pushManifest r t data mt dec =>
    simp only [step]; split
    · exact Eff.refl H s _
    · next s1 rp hm =>
      have him1 := makeRepo_immutableTags hm
      split
      · exact Eff.make_self H hm
      · split
        · next cur hex => split <;> (try split) <;> exact Eff.make_self H hm
        · next hex =>
          split
          · next b0 hb0 =>
            split
            · exact Eff.make_self H hm
            · next hrt =>
              split
              · exact Eff.make_self H hm
              · split
                · exact Eff.make_self H hm
                · next rs hrs =>
                  split
                  · exact Eff.make_self H hm
                  · next subj hcr =>
                    have hdec : decRefs dec = some rs := by
                      cases dec <;> exact hrs
                    have hretype : s.immutableTags = true → ∀ b0, alookup (H data) rp.manifests = some b0 →
                        taggedRefersTo rp (H data) = true → b0.mediaType = mt := by
                      intro him b hb htr
                      rw [hb0] at hb; cases hb
                      simpa [him1, him, htr] using hrt
                    by_cases ht : t = []
                    · simp only [ht, ne_eq, not_true_eq_false, if_false]
                      exact Eff.make_put H hm (RepoStep.insManifest rp data mt subj rs dec ⟨r, [], rfl⟩ hdec hretype hcr)
                    · simp only [ne_eq, ht, not_false_eq_true, if_true]
                      refine Eff.make_put H hm (RepoStep.insTagged rp t data mt subj rs dec ⟨r, t, rfl⟩ hdec hretype
                        (fun him => ?_) hcr)
                      rw [him1] at hex
                      simpa [ht, him] using hex
          · next hnone =>
            split
            · exact Eff.make_self H hm
            · next hrt =>
              split
              · exact Eff.make_self H hm
              · split
                · exact Eff.make_self H hm
                · next rs hrs =>
                  split
                  · exact Eff.make_self H hm
                  · next subj hcr =>
                    have hdec : decRefs dec = some rs := by
                      cases dec <;> exact hrs
                    have hretype : s.immutableTags = true → ∀ b0, alookup (H data) rp.manifests = some b0 →
                        taggedRefersTo rp (H data) = true → b0.mediaType = mt := by
                      intro him b hb htr
                      rw [hnone] at hb; cases hb
                    by_cases ht : t = []
                    · simp only [ht, ne_eq, not_true_eq_false, if_false]
                      exact Eff.make_put H hm (RepoStep.insManifest rp data mt subj rs dec ⟨r, [], rfl⟩ hdec hretype hcr)
                    · simp only [ne_eq, ht, not_false_eq_true, if_true]
                      refine Eff.make_put H hm (RepoStep.insTagged rp t data mt subj rs dec ⟨r, t, rfl⟩ hdec hretype
                        (fun him => ?_) hcr)
                      rw [him1] at hex
                      simpa [ht, him] using hex
  | deleteBlob r d =>
    simp only [step]; split
    · exact Eff.refl H s _
    · split
      · exact Eff.refl H s _
      · next rp hg =>
        split
        · exact Eff.refl H s _
        · next hc => exact Eff.put H hg (RepoStep.delBlob rp d (by simpa using hc))
  | deleteManifest r d =>
    simp only [step]; split
    · exact Eff.refl H s _
    · split
      · exact Eff.refl H s _
      · next rp hg =>
        split
        · exact Eff.refl H s _
        · next hc => exact Eff.put H hg (RepoStep.delManifest rp d (by simpa using hc))
  | deleteTag r t =>
    simp only [step]; split
    · exact Eff.refl H s _
    · next rp hg =>
      split
      · exact Eff.refl H s _
      · split
        · exact Eff.refl H s _
        · next hc => exact Eff.put H hg (RepoStep.delTag rp t (by simpa using hc))
  | repositories start => exact Eff.refl H s _
  | tags r start => simp only [step]; split <;> exact Eff.refl H s _
  | referrers r d => simp only [step]; split <;> exact Eff.refl H s _

end

/-! ### Consequences of `step_eff` -/

section
variable (H : Bytes → Bytes)

/-- `step` never changes the mode. -/
theorem immutable_preserved (s : State) (op : Op) : (step H s op).1.immutableTags = s.immutableTags :=
  (step_eff H s op).1

theorem RepoStep.inv {op : Op} {s : State} {rp rp' : Repo} (hs : Inv H s) (hrp : RepoInv H rp)
    (h : RepoStep H s op rp rp') : RepoInv H rp' := by
  obtain ⟨hb, hm⟩ := hrp
  cases h with
  | refl => exact ⟨hb, hm⟩
  | uploads ups => exact ⟨hb, hm⟩
  | insBlob k b ups hk =>
    refine ⟨fun k' b' h' => ?_, hm⟩
    simp only [alookup_ainsert] at h'
    split at h'
    · next e => cases h'; exact e ▸ hk hs
    · exact hb _ _ h'
  | insManifest data mt subj rs _ =>
    refine ⟨hb, fun k' b' h' => ?_⟩
    simp only [alookup_ainsert] at h'
    split at h'
    · next e => cases h'; exact e.symm
    · exact hm _ _ h'
  | insTagged t data mt subj rs _ _ =>
    refine ⟨hb, fun k' b' h' => ?_⟩
    simp only [alookup_ainsert] at h'
    split at h'
    · next e => cases h'; exact e.symm
    · exact hm _ _ h'
  | delBlob d _ => exact ⟨fun k' b' h' => hb _ _ (alookup_of_aerase h'), hm⟩
  | delManifest d _ => exact ⟨hb, fun k' b' h' => hm _ _ (alookup_of_aerase h')⟩
  | delTag t _ => exact ⟨hb, hm⟩

theorem Eff.inv {op : Op} {s s' : State} (hs : Inv H s) (h : Eff H s op s') : Inv H s' := by
  intro r rp' hg
  rcases h.2 r with he | ⟨rp'', hg', hst⟩
  · exact hs r rp' (he ▸ hg)
  · rw [hg] at hg'; cases hg'
    refine RepoStep.inv H hs ?_ hst
    cases hg0 : getRepo s r with
    | none => exact RepoInv_empty H
    | some rp => exact hs r rp hg0

/-- The digest invariant is preserved by every operation, for every `H`. -/
theorem Inv_step {s : State} (hs : Inv H s) (op : Op) : Inv H (step H s op).1 :=
  Eff.inv H hs (step_eff H s op)

/-! ### Histories -/

theorem run_nil (s : State) : run H s [] = (s, []) := rfl

theorem run_cons (s : State) (op : Op) (ops : List Op) :
    run H s (op :: ops) = ((run H (step H s op).1 ops).1, (step H s op).2 :: (run H (step H s op).1 ops).2) := rfl

/-- Anything that holds initially and is preserved by every step holds after every history. -/
theorem run_induction {P : State → Prop} (hstep : ∀ s op, P s → P (step H s op).1)
    (s : State) (h : P s) (ops : List Op) : P (run H s ops).1 := by
  induction ops generalizing s with
  | nil => exact h
  | cons op ops ih => rw [run_cons]; exact ih _ (hstep s op h)

theorem immutable_preserved_run (s : State) (ops : List Op) :
    (run H s ops).1.immutableTags = s.immutableTags := by
  induction ops generalizing s with
  | nil => rfl
  | cons op ops ih => rw [run_cons]; exact (ih _).trans (immutable_preserved H s op)

theorem Inv_run {s : State} (hs : Inv H s) (ops : List Op) : Inv H (run H s ops).1 :=
  run_induction H (P := Inv H) (fun _ op h => Inv_step H h op) s hs ops

end

/-! ### `refersTo` and reachability -/

theorem refersTo_zero (rp : Repo) (target : Bytes) (refs : List RefInfo) :
    refersTo rp target 0 refs = false := by
  rw [refersTo]

theorem refersTo_nil (rp : Repo) (target : Bytes) (fuel : Nat) :
    refersTo rp target fuel [] = false := by
  cases fuel <;> simp [refersTo]

/-- One unfolding of `refersTo` as a statement about list membership.
F42: the stored manifest is followed under its stored media type (`b.refs`) or under
the one the reference declares for it (`refsAs b ref.desc.mediaType`). -/
theorem refersTo_succ (rp : Repo) (target : Bytes) (n : Nat) (refs : List RefInfo) :
    refersTo rp target (n + 1) refs = true ↔
      ∃ ref, ref ∈ refs ∧ (ref.desc.digest = target ∨
        ((ref.kind = 1 ∨ ref.kind = 2) ∧
          ∃ b, alookup ref.desc.digest rp.manifests = some b ∧
            (refersTo rp target n b.refs = true ∨
             refersTo rp target n (refsAs b ref.desc.mediaType) = true))) := by
  induction refs with
  | nil => simp [refersTo_nil]
  | cons r rest ih =>
    rw [refersTo]
    by_cases hd : r.desc.digest = target
    · simp only [hd, if_true, true_iff]
      exact ⟨r, List.mem_cons_self, .inl hd⟩
    · rw [if_neg hd]
      simp only [Bool.or_eq_true, ih]
      constructor
      · rintro (h | ⟨ref, hm, hp⟩)
        · refine ⟨r, List.mem_cons_self, .inr ?_⟩
          split at h
          · next hk =>
            refine ⟨hk, ?_⟩
            split at h
            · next b hb => exact ⟨b, hb, by simpa [Bool.or_eq_true] using h⟩
            · cases h
          · cases h
        · exact ⟨ref, List.mem_cons_of_mem _ hm, hp⟩
      · rintro ⟨ref, hm, hp⟩
        rcases List.mem_cons.1 hm with rfl | hm
        · rcases hp with h | ⟨hk, b, hb, h⟩
          · exact absurd h hd
          · left; rw [if_pos hk]; simp only [hb]; simpa [Bool.or_eq_true] using h
        · exact .inr ⟨ref, hm, hp⟩

/-- `ref ∈ refs` with the target's digest is found with any positive fuel. -/
theorem refersTo_of_mem {rp : Repo} {target : Bytes} {refs : List RefInfo} {ref : RefInfo} (fuel : Nat)
    (hm : ref ∈ refs) (hd : ref.desc.digest = target) : refersTo rp target (fuel + 1) refs = true :=
  (refersTo_succ rp target fuel refs).2 ⟨ref, hm, .inl hd⟩

/-- `Reach rp n refs target`: `target` is the digest of one of `refs`, or of a
reference reachable from them through at most `n - 1` stored manifests, following
kind-1 (index entry) and kind-2 (subject) references. Mirrors `refersTo`.
F42: `stepAs` follows a stored manifest under the media type the reference declares. -/
inductive Reach (rp : Repo) : Nat → List RefInfo → Bytes → Prop
  | here {n : Nat} {refs : List RefInfo} {target : Bytes} {ref : RefInfo} :
      ref ∈ refs → ref.desc.digest = target → Reach rp (n + 1) refs target
  | step {n : Nat} {refs : List RefInfo} {target : Bytes} {ref : RefInfo} {b : Blob} :
      ref ∈ refs → (ref.kind = 1 ∨ ref.kind = 2) →
      alookup ref.desc.digest rp.manifests = some b →
      Reach rp n b.refs target → Reach rp (n + 1) refs target
  | stepAs {n : Nat} {refs : List RefInfo} {target : Bytes} {ref : RefInfo} {b : Blob} :
      ref ∈ refs → (ref.kind = 1 ∨ ref.kind = 2) →
      alookup ref.desc.digest rp.manifests = some b →
      Reach rp n (refsAs b ref.desc.mediaType) target → Reach rp (n + 1) refs target

/-- Reachable at some depth. -/
def ReachU (rp : Repo) (refs : List RefInfo) (target : Bytes) : Prop := ∃ n, Reach rp n refs target

-- F42: `Reach` has the constructor `stepAs`
theorem refersTo_iff_reach (rp : Repo) (target : Bytes) (fuel : Nat) (refs : List RefInfo) :
    refersTo rp target fuel refs = true ↔ Reach rp fuel refs target := by
  induction fuel generalizing refs with
  | zero =>
    rw [refersTo_zero]
    constructor
    · intro h; cases h
    · intro h; cases h
  | succ n ih =>
    rw [refersTo_succ]
    constructor
    · rintro ⟨ref, hm, hd | ⟨hk, b, hb, h | h⟩⟩
      · exact .here hm hd
      · exact .step hm hk hb ((ih _).1 h)
      · exact .stepAs hm hk hb ((ih _).1 h)
    · intro h
      cases h with
      | here hm hd => exact ⟨_, hm, .inl hd⟩
      | step hm hk hb h => exact ⟨_, hm, .inr ⟨hk, _, hb, .inl ((ih _).2 h)⟩⟩
      | stepAs hm hk hb h => exact ⟨_, hm, .inr ⟨hk, _, hb, .inr ((ih _).2 h)⟩⟩

theorem Reach.mono_fuel {rp : Repo} {n m : Nat} {refs : List RefInfo} {target : Bytes}
    (h : Reach rp n refs target) (hnm : n ≤ m) : Reach rp m refs target := by
  induction h generalizing m with
  | here hm hd =>
    obtain ⟨m', rfl⟩ : ∃ m', m = m' + 1 := ⟨m - 1, by omega⟩
    exact .here hm hd
  | step hm hk hb _ ih =>
    obtain ⟨m', rfl⟩ : ∃ m', m = m' + 1 := ⟨m - 1, by omega⟩
    exact .step hm hk hb (ih (by omega))
  | stepAs hm hk hb _ ih =>
    obtain ⟨m', rfl⟩ : ∃ m', m = m' + 1 := ⟨m - 1, by omega⟩
    exact .stepAs hm hk hb (ih (by omega))

/-- More stored manifests, more reachable. -/
theorem Reach.mono_repo {rp rp' : Repo} {n : Nat} {refs : List RefInfo} {target : Bytes}
    (hsub : ∀ k b, alookup k rp.manifests = some b → alookup k rp'.manifests = some b)
    (h : Reach rp n refs target) : Reach rp' n refs target := by
  induction h with
  | here hm hd => exact .here hm hd
  | step hm hk hb _ ih => exact .step hm hk (hsub _ _ hb) ih
  | stepAs hm hk hb _ ih => exact .stepAs hm hk (hsub _ _ hb) ih

/-- A path either avoids the manifest `k`, or its part after the last visit to `k` does.
F42: that part starts from `k`'s references under its stored media type or under one
a reference declared for it (`rs = bk.refs ∨ ∃ mt, rs = refsAs bk mt`). -/
theorem Reach.erase_or {rp : Repo} {n : Nat} {refs : List RefInfo} {target : Bytes} (k : Bytes)
    (h : Reach rp n refs target) :
    Reach { rp with manifests := aerase k rp.manifests } n refs target ∨
    ∃ n' bk rs, alookup k rp.manifests = some bk ∧ (rs = bk.refs ∨ ∃ mt, rs = refsAs bk mt) ∧
      Reach { rp with manifests := aerase k rp.manifests } n' rs target := by
  induction h with
  | here hm hd => exact .inl (.here hm hd)
  | @step n refs target ref b hm hk hb _ ih =>
    by_cases he : ref.desc.digest = k
    · rcases ih with h | h
      · exact .inr ⟨_, b, _, he ▸ hb, .inl rfl, h⟩
      · exact .inr h
    · rcases ih with h | h
      · exact .inl (.step hm hk (by simpa [alookup_aerase_ne he] using hb) h)
      · exact .inr h
  | @stepAs n refs target ref b hm hk hb _ ih =>
    by_cases he : ref.desc.digest = k
    · rcases ih with h | h
      · exact .inr ⟨_, b, _, he ▸ hb, .inr ⟨_, rfl⟩, h⟩
      · exact .inr h
    · rcases ih with h | h
      · exact .inl (.stepAs hm hk (by simpa [alookup_aerase_ne he] using hb) h)
      · exact .inr h

/-! #### F42: the fuel

A path may now pass through the same stored manifest more than once without
repeating itself: once under the media type it is stored with and once under each
media type a reference declares for it and ocimem can look inside (image manifest,
image index). What a path cannot usefully repeat is the *list of references* it
continues from, and there are at most three of those per stored manifest (`views`). -/

/-- The reference lists a path can continue from after passing through a stored manifest. -/
def views (rp : Repo) : List (List RefInfo) :=
  rp.manifests.flatMap fun p =>
    [p.2.refs, refsAs p.2 ManifestDecode.imageMT, refsAs p.2 ManifestDecode.indexMT]

theorem views_length (rp : Repo) : (views rp).length = 3 * rp.manifests.length := by
  unfold views
  generalize rp.manifests = l
  induction l with
  | nil => rfl
  | cons p rest ih => simp only [List.flatMap_cons, List.length_append, List.length_cons, List.length_nil, ih]; omega

theorem mem_of_alookup {β} {k : Bytes} {m : List (Bytes × β)} {v : β} (h : alookup k m = some v) :
    (k, v) ∈ m := by
  induction m with
  | nil => cases h
  | cons p rest ih =>
    obtain ⟨k', v'⟩ := p
    simp only [alookup] at h
    split at h
    · next e => cases h; subst e; exact List.mem_cons_self
    · exact List.mem_cons_of_mem _ (ih h)

/-- Only the two media types ocimem can look inside give references. -/
theorem refsAs_cases (b : Blob) (mt : Bytes) :
    refsAs b mt = [] ∨ refsAs b mt = refsAs b ManifestDecode.imageMT ∨
      refsAs b mt = refsAs b ManifestDecode.indexMT := by
  by_cases h1 : mt = ManifestDecode.imageMT
  · subst h1; exact .inr (.inl rfl)
  · by_cases h2 : mt = ManifestDecode.indexMT
    · subst h2; exact .inr (.inr rfl)
    · left
      unfold refsAs
      split
      · rfl
      · simp [ManifestDecode.decodeRefs, h1, h2]

/-- `refsAs` looks at the stored bytes and the stored media type only. -/
theorem refsAs_congr {b b' : Blob} (hd : b'.data = b.data) (hmt : b'.mediaType = b.mediaType) (mt : Bytes) :
    refsAs b' mt = refsAs b mt := by
  unfold refsAs; rw [hd, hmt]

theorem mem_views {rp : Repo} {k : Bytes} {b : Blob} (hb : alookup k rp.manifests = some b) :
    b.refs ∈ views rp ∧ refsAs b ManifestDecode.imageMT ∈ views rp ∧ refsAs b ManifestDecode.indexMT ∈ views rp := by
  have hm := mem_of_alookup hb
  unfold views
  refine ⟨List.mem_flatMap.2 ⟨_, hm, ?_⟩, List.mem_flatMap.2 ⟨_, hm, ?_⟩, List.mem_flatMap.2 ⟨_, hm, ?_⟩⟩ <;> simp

/-- `Reach` with the reference lists a path may continue from restricted to `vs`. -/
inductive ReachV (rp : Repo) (vs : List (List RefInfo)) : Nat → List RefInfo → Bytes → Prop
  | here {n : Nat} {refs : List RefInfo} {target : Bytes} {ref : RefInfo} :
      ref ∈ refs → ref.desc.digest = target → ReachV rp vs (n + 1) refs target
  | step {n : Nat} {refs next : List RefInfo} {target : Bytes} {ref : RefInfo} {b : Blob} :
      ref ∈ refs → (ref.kind = 1 ∨ ref.kind = 2) →
      alookup ref.desc.digest rp.manifests = some b →
      (next = b.refs ∨ next = refsAs b ref.desc.mediaType) → next ∈ vs →
      ReachV rp vs n next target → ReachV rp vs (n + 1) refs target

theorem Reach.nonempty {rp : Repo} {n : Nat} {refs : List RefInfo} {target : Bytes}
    (h : Reach rp n refs target) : refs ≠ [] := by
  cases h <;> (intro e; subst e; contradiction)

theorem Reach.toV {rp : Repo} {n : Nat} {refs : List RefInfo} {target : Bytes}
    (h : Reach rp n refs target) : ReachV rp (views rp) n refs target := by
  induction h with
  | here hm hd => exact .here hm hd
  | step hm hk hb _ ih => exact .step hm hk hb (.inl rfl) (mem_views hb).1 ih
  | @stepAs n refs target ref b hm hk hb hrest ih =>
    refine .step hm hk hb (.inr rfl) ?_ ih
    rcases refsAs_cases b ref.desc.mediaType with h | h | h
    · exact absurd h hrest.nonempty
    · rw [h]; exact (mem_views hb).2.1
    · rw [h]; exact (mem_views hb).2.2

theorem ReachV.toReach {rp : Repo} {vs : List (List RefInfo)} {n : Nat} {refs : List RefInfo} {target : Bytes}
    (h : ReachV rp vs n refs target) : Reach rp n refs target := by
  induction h with
  | here hm hd => exact .here hm hd
  | step hm hk hb hnext _ _ ih =>
    rcases hnext with rfl | rfl
    · exact .step hm hk hb ih
    · exact .stepAs hm hk hb ih

theorem ReachV.mono_fuel {rp : Repo} {vs : List (List RefInfo)} {n m : Nat} {refs : List RefInfo} {target : Bytes}
    (h : ReachV rp vs n refs target) (hnm : n ≤ m) : ReachV rp vs m refs target := by
  induction h generalizing m with
  | here hm hd =>
    obtain ⟨m', rfl⟩ : ∃ m', m = m' + 1 := ⟨m - 1, by omega⟩
    exact .here hm hd
  | step hm hk hb hnext hv _ ih =>
    obtain ⟨m', rfl⟩ : ∃ m', m = m' + 1 := ⟨m - 1, by omega⟩
    exact .step hm hk hb hnext hv (ih (by omega))

theorem ReachV.mono_vs {rp : Repo} {vs vs' : List (List RefInfo)} {n : Nat} {refs : List RefInfo} {target : Bytes}
    (hsub : ∀ v, v ∈ vs → v ∈ vs') (h : ReachV rp vs n refs target) : ReachV rp vs' n refs target := by
  induction h with
  | here hm hd => exact .here hm hd
  | step hm hk hb hnext hv _ ih => exact .step hm hk hb hnext (hsub _ hv) ih

/-- A path either never continues from the list `v`, or its part after the last time it does, does not. -/
theorem ReachV.erase_or {rp : Repo} {vs : List (List RefInfo)} {n : Nat} {refs : List RefInfo} {target : Bytes}
    (v : List RefInfo) (h : ReachV rp vs n refs target) :
    ReachV rp (vs.filter (· ≠ v)) n refs target ∨ ∃ n', ReachV rp (vs.filter (· ≠ v)) n' v target := by
  induction h with
  | here hm hd => exact .inl (.here hm hd)
  | @step n refs next target ref b hm hk hb hnext hv _ ih =>
    by_cases he : next = v
    · rcases ih with h | h
      · exact .inr ⟨_, he ▸ h⟩
      · exact .inr h
    · rcases ih with h | h
      · exact .inl (.step hm hk hb hnext (List.mem_filter.2 ⟨hv, by simpa using he⟩) h)
      · exact .inr h

theorem length_filter_ne_lt {v : List RefInfo} {vs : List (List RefInfo)} (h : v ∈ vs) :
    (vs.filter (· ≠ v)).length < vs.length := by
  induction vs with
  | nil => cases h
  | cons x rest ih =>
    by_cases hx : x = v
    · have : (List.filter (· ≠ v) (x :: rest)) = List.filter (· ≠ v) rest := by simp [List.filter, hx]
      rw [this]
      exact Nat.lt_succ_of_le (List.length_filter_le _ _)
    · have hv : v ∈ rest := by
        rcases List.mem_cons.1 h with e | e
        · exact absurd e.symm hx
        · exact e
      have : (List.filter (· ≠ v) (x :: rest)) = x :: List.filter (· ≠ v) rest := by simp [List.filter, hx]
      rw [this]
      simp only [List.length_cons]
      exact Nat.succ_lt_succ (ih hv)

theorem ReachV.bounded {rp : Repo} {vs : List (List RefInfo)} {n : Nat} {refs : List RefInfo} {target : Bytes}
    (h : ReachV rp vs n refs target) : ReachV rp vs (vs.length + 1) refs target := by
  generalize hlen : vs.length = m
  induction m using Nat.strongRecOn generalizing vs n refs target with
  | _ m ih =>
    cases h with
    | here hm hd => exact .here hm hd
    | @step n' _ next _ ref b hm hk hb hnext hv hrest =>
      have hlt : (vs.filter (· ≠ next)).length < m := hlen ▸ length_filter_ne_lt hv
      have hsome : ∃ n'', ReachV rp (vs.filter (· ≠ next)) n'' next target := by
        rcases ReachV.erase_or next hrest with h | h
        · exact ⟨_, h⟩
        · exact h
      obtain ⟨n'', h''⟩ := hsome
      have h1 := ih _ hlt h'' rfl
      have h2 : ReachV rp (vs.filter (· ≠ next)) m next target := h1.mono_fuel (by omega)
      exact .step hm hk hb hnext hv (h2.mono_vs fun v hv' => (List.mem_filter.1 hv').1)

/-- **The fuel is never a restriction.** A shortest path continues from each of the
reference lists of `views` at most once, so whatever is reachable at all is reachable
within depth `3 * manifests.length + 1`. No acyclicity assumption is needed.
F42: was `manifests.length + 1`, when a stored manifest had one list of references. -/
theorem Reach.bounded {rp : Repo} {n : Nat} {refs : List RefInfo} {target : Bytes}
    (h : Reach rp n refs target) : Reach rp (3 * rp.manifests.length + 1) refs target := by
  have := (Reach.toV h).bounded.toReach
  rwa [views_length] at this

theorem ReachU.bounded {rp : Repo} {refs : List RefInfo} {target : Bytes} (h : ReachU rp refs target) :
    Reach rp (3 * rp.manifests.length + 1) refs target := h.elim fun _ h => h.bounded

/-- `taggedRefersTo` decides unbounded reachability from the tags. -/
theorem taggedRefersTo_iff (rp : Repo) (target : Bytes) :
    taggedRefersTo rp target = true ↔ ReachU rp (tagRefs rp) target := by
  unfold taggedRefersTo
  rw [refersTo_iff_reach]
  exact ⟨fun h => ⟨_, h⟩, fun h => h.bounded.mono_fuel (by omega)⟩

theorem mem_tagRefs {rp : Repo} {t : Bytes} {d : Desc} (h : alookup t rp.tags = some d) :
    (⟨1, d⟩ : RefInfo) ∈ tagRefs rp := by
  unfold tagRefs
  generalize rp.tags = l at h
  induction l with
  | nil => cases h
  | cons p rest ih =>
    obtain ⟨k, v⟩ := p
    simp only [alookup] at h
    split at h
    · cases h; exact List.mem_cons_self
    · exact List.mem_cons_of_mem _ (ih h)

/-! ### Immutable mode: what a `RepoStep` keeps -/

section
variable (H : Bytes → Bytes)

/-- A tag's digest is found by `taggedRefersTo` (first clause of `refersTo`). -/
theorem taggedRefersTo_tag {rp : Repo} {t : Bytes} {d : Desc} (ht : alookup t rp.tags = some d) :
    taggedRefersTo rp d.digest = true :=
  refersTo_of_mem _ (mem_tagRefs ht) rfl

theorem RepoStep.tag_stable {op : Op} {s : State} {rp rp' : Repo} {t : Bytes} {d : Desc}
    (him : s.immutableTags = true) (h : RepoStep H s op rp rp') (ht : alookup t rp.tags = some d) :
    alookup t rp'.tags = some d := by
  cases h with
  | refl => exact ht
  | uploads ups => exact ht
  | insBlob k b ups _ => exact ht
  | insManifest data mt subj rs _ => exact ht
  | insTagged t' data mt subj rs dec _ _ _ hnone _ =>
    have hne : t ≠ t' := fun e => by rw [e, hnone him] at ht; cases ht
    simpa [alookup_ainsert_ne hne] using ht
  | delBlob d' _ => exact ht
  | delManifest d' _ => exact ht
  | delTag t' hf => rw [him] at hf; cases hf

/-- The manifest a tag points at stays stored under the same digest; it is the
same `Blob`, or one re-pushed under that digest *with the same media type*. -/
theorem RepoStep.tagged_manifest {op : Op} {s : State} {rp rp' : Repo} {t : Bytes} {d : Desc} {b : Blob}
    (him : s.immutableTags = true) (h : RepoStep H s op rp rp') (ht : alookup t rp.tags = some d)
    (hm : alookup d.digest rp.manifests = some b) :
    ∃ b', alookup d.digest rp'.manifests = some b' ∧
      (b' = b ∨ (H b'.data = d.digest ∧ b'.mediaType = b.mediaType)) := by
  have hins : ∀ (data mt subj : Bytes) (rs : List RefInfo),
      (s.immutableTags = true → ∀ b0, alookup (H data) rp.manifests = some b0 →
        taggedRefersTo rp (H data) = true → b0.mediaType = mt) →
      ∃ b', alookup d.digest (ainsert (H data) ⟨mt, data, subj, rs⟩ rp.manifests) = some b' ∧
        (b' = b ∨ (H b'.data = d.digest ∧ b'.mediaType = b.mediaType)) := by
    intro data mt subj rs hretype
    rw [alookup_ainsert]
    split
    · next e =>
      have := hretype him b (e ▸ hm) (e ▸ taggedRefersTo_tag ht)
      exact ⟨_, rfl, .inr ⟨e.symm, this.symm⟩⟩
    · exact ⟨b, hm, .inl rfl⟩
  cases h with
  | refl => exact ⟨b, hm, .inl rfl⟩
  | uploads ups => exact ⟨b, hm, .inl rfl⟩
  | insBlob k b0 ups _ => exact ⟨b, hm, .inl rfl⟩
  | insManifest data mt subj rs dec _ _ hretype _ => exact hins data mt subj rs hretype
  | insTagged t' data mt subj rs dec _ _ hretype _ _ => exact hins data mt subj rs hretype
  | delBlob d' _ => exact ⟨b, hm, .inl rfl⟩
  | delManifest d' hno =>
    have hne : d.digest ≠ d' := fun e => hno ⟨him, e ▸ taggedRefersTo_tag ht⟩
    exact ⟨b, by simpa [alookup_aerase_ne hne] using hm, .inl rfl⟩
  | delTag t' hf => rw [him] at hf; cases hf

theorem Eff.tag_stable {op : Op} {s s' : State} {r t : Bytes} {rp : Repo} {d : Desc}
    (him : s.immutableTags = true) (h : Eff H s op s') (hg : getRepo s r = some rp)
    (ht : alookup t rp.tags = some d) :
    ∃ rp', getRepo s' r = some rp' ∧ alookup t rp'.tags = some d := by
  rcases h.2 r with he | ⟨rp', hg', hst⟩
  · exact ⟨rp, he.trans hg, ht⟩
  · rw [hg] at hst
    exact ⟨rp', hg', RepoStep.tag_stable H him hst ht⟩

theorem Eff.tagged_manifest {op : Op} {s s' : State} {r t : Bytes} {rp : Repo} {d : Desc} {b : Blob}
    (him : s.immutableTags = true) (h : Eff H s op s') (hg : getRepo s r = some rp)
    (ht : alookup t rp.tags = some d) (hm : alookup d.digest rp.manifests = some b) :
    ∃ rp' b', getRepo s' r = some rp' ∧ alookup t rp'.tags = some d ∧
      alookup d.digest rp'.manifests = some b' ∧
      (b' = b ∨ (H b'.data = d.digest ∧ b'.mediaType = b.mediaType)) := by
  rcases h.2 r with he | ⟨rp', hg', hst⟩
  · exact ⟨rp, b, he.trans hg, ht, hm, .inl rfl⟩
  · rw [hg] at hst
    obtain ⟨b', hb', hor⟩ := RepoStep.tagged_manifest H him hst ht hm
    exact ⟨rp', b', hg', RepoStep.tag_stable H him hst ht, hb', hor⟩

/-! ### Reading operations -/

theorem resolveTag_eq {s : State} {r t : Bytes} {rp : Repo} {d : Desc}
    (hg : getRepo s r = some rp) (ht : alookup t rp.tags = some d) :
    step H s (.resolveTag r t) = (s, .okDesc d) := by
  simp [step, hg, ht]

theorem resolveTag_ok {s s' : State} {r t : Bytes} {d : Desc} (h : step H s (.resolveTag r t) = (s', .okDesc d)) :
    ∃ rp, getRepo s r = some rp ∧ alookup t rp.tags = some d := by
  simp only [step] at h
  split at h
  · cases h
  · next rp hg =>
    split at h
    · cases h
    · next d' ht => cases h; exact ⟨rp, hg, ht⟩

theorem getTag_eq {s : State} {r t : Bytes} {rp : Repo} {d : Desc} {b : Blob}
    (hg : getRepo s r = some rp) (ht : alookup t rp.tags = some d)
    (hm : alookup d.digest rp.manifests = some b) :
    step H s (.getTag r t) = (s, .okRead (descOf H b) b.data) := by
  simp [step, hg, ht, hm]

theorem getTag_ok {s s' : State} {r t : Bytes} {desc : Desc} {data : Bytes}
    (h : step H s (.getTag r t) = (s', .okRead desc data)) :
    ∃ rp d b, getRepo s r = some rp ∧ alookup t rp.tags = some d ∧
      alookup d.digest rp.manifests = some b ∧ desc = descOf H b ∧ data = b.data := by
  simp only [step] at h
  split at h
  · cases h
  · next rp hg =>
    split at h
    · cases h
    · next d ht =>
      split at h
      · cases h
      · next b hm => cases h; exact ⟨rp, d, b, hg, ht, hm, rfl, rfl⟩

/-! ### Deletes -/

theorem deleteBlob_denied {s : State} {r x : Bytes} {rp : Repo} {bx : Blob}
    (him : s.immutableTags = true) (hg : getRepo s r = some rp)
    (hpres : alookup x rp.blobs = some bx) (href : taggedRefersTo rp x = true) :
    step H s (.deleteBlob r x) = (s, .err "DENIED") := by
  simp [step, blobFor, hg, hpres, him, href]

theorem deleteManifest_denied {s : State} {r x : Bytes} {rp : Repo} {bx : Blob}
    (him : s.immutableTags = true) (hg : getRepo s r = some rp)
    (hpres : alookup x rp.manifests = some bx) (href : taggedRefersTo rp x = true) :
    step H s (.deleteManifest r x) = (s, .err "DENIED") := by
  simp [step, manifestFor, hg, hpres, him, href]

theorem deleteBlob_allowed {s : State} {r x : Bytes} {rp : Repo} {bx : Blob}
    (hg : getRepo s r = some rp)
    (hpres : alookup x rp.blobs = some bx) (href : taggedRefersTo rp x = false) :
    step H s (.deleteBlob r x) = (putRepo s r { rp with blobs := aerase x rp.blobs }, .okUnit) := by
  simp [step, blobFor, hg, hpres, href]

theorem deleteManifest_allowed {s : State} {r x : Bytes} {rp : Repo} {bx : Blob}
    (hg : getRepo s r = some rp)
    (hpres : alookup x rp.manifests = some bx) (href : taggedRefersTo rp x = false) :
    step H s (.deleteManifest r x) = (putRepo s r { rp with manifests := aerase x rp.manifests }, .okUnit) := by
  simp [step, manifestFor, hg, hpres, href]

end

/-! ### `pushManifest` on an existing repository -/

section
variable (H : Bytes → Bytes)

theorem makeRepo_existing {s : State} {r : Bytes} {rp : Repo} (hg : getRepo s r = some rp) :
    makeRepo s r = if Ref.isRepo r then some (s, rp) else none := by
  unfold makeRepo
  cases Ref.isRepo r <;> simp [hg]

theorem pushManifest_existing_tag {s : State} (him : s.immutableTags = true) {r t : Bytes} {rp : Repo}
    {cur : Desc} (hg : getRepo s r = some rp) (ht : alookup t rp.tags = some cur) (hne : t ≠ [])
    (data mt : Bytes) (dec : Decoded) :
    (∃ e, step H s (.pushManifest r t data mt dec) = (s, .err e)) ∨
    (step H s (.pushManifest r t data mt dec) = (s, .okDesc cur) ∧ cur.digest = H data ∧ cur.mediaType = mt) := by
  simp only [step, makeRepo_existing hg]
  cases Ref.isRepo r with
  | false => exact .inl ⟨_, rfl⟩
  | true =>
    simp only [if_true]
    by_cases hbad : t ≠ [] ∧ (!Ref.isTag t) = true
    · rw [if_pos hbad]; exact .inl ⟨_, rfl⟩
    · rw [if_neg hbad]
      have hex : (if t ≠ [] ∧ s.immutableTags = true then alookup t rp.tags else none) = some cur := by
        rw [if_pos ⟨hne, him⟩, ht]
      simp only [hex]
      by_cases hd : cur.digest = H data
      · rw [if_pos hd]
        by_cases hmt : cur.mediaType ≠ mt
        · rw [if_pos hmt]; exact .inl ⟨_, rfl⟩
        · rw [if_neg hmt]; exact .inr ⟨rfl, hd, by simpa using hmt⟩
      · rw [if_neg hd]; exact .inl ⟨_, rfl⟩

/-- An untagged push stores the manifest — provided the retype rule does not fire. -/
theorem pushManifest_untagged_opaque {s : State} {r : Bytes} {rp : Repo} (hg : getRepo s r = some rp)
    (hr : Ref.isRepo r = true) {data mt : Bytes}
    (hchk : checkDescData H ⟨mt, H data, data.length⟩ data = none)
    (hfree : s.immutableTags = false ∨ alookup (H data) rp.manifests = none) :
    step H s (.pushManifest r [] data mt .opaque) =
      (putRepo s r { rp with manifests := ainsert (H data) ⟨mt, data, [], []⟩ rp.manifests },
       .okDesc ⟨mt, H data, data.length⟩) := by
  rcases hfree with h | h <;> simp [step, makeRepo_existing hg, hr, hchk, checkRefs, h]

/-- The retype rule: in immutable mode, a manifest stored under a digest reachable
from a tag cannot be re-stored under another media type (untagged or under a fresh
valid tag); the call is `DENIED` and nothing changes. -/
theorem pushManifest_retype_refused {s : State} (him : s.immutableTags = true) {r t : Bytes} {rp : Repo}
    {b0 : Blob} (hg : getRepo s r = some rp) (hr : Ref.isRepo r = true) {data mt : Bytes}
    (hm : alookup (H data) rp.manifests = some b0) (hmt : b0.mediaType ≠ mt)
    (href : taggedRefersTo rp (H data) = true)
    (hfresh : t = [] ∨ (Ref.isTag t = true ∧ alookup t rp.tags = none)) (dec : Decoded) :
    step H s (.pushManifest r t data mt dec) = (s, .err "DENIED") := by
  rcases hfresh with h | ⟨h1, h2⟩
  · simp [step, makeRepo_existing hg, hr, h, him, hm, hmt, href]
  · simp [step, makeRepo_existing hg, hr, h1, h2, him, hm, hmt, href]

/-- Whatever the tag, such a push never changes the state. -/
theorem pushManifest_retype_unchanged {s : State} (him : s.immutableTags = true) {r t : Bytes} {rp : Repo}
    {b0 : Blob} (hg : getRepo s r = some rp) {data mt : Bytes}
    (hm : alookup (H data) rp.manifests = some b0) (hmt : b0.mediaType ≠ mt)
    (href : taggedRefersTo rp (H data) = true) (dec : Decoded) :
    (step H s (.pushManifest r t data mt dec)).1 = s := by
  simp only [step, makeRepo_existing hg]
  cases Ref.isRepo r with
  | false => rfl
  | true =>
    simp only [if_true]
    split
    · rfl
    · split
      · split <;> (try split) <;> rfl
      · simp [him, hm, hmt, href]

end

/-! ### Retention over histories

With the retype rule, what is reachable from a tag stays reachable and stored. Two
things outside the registry's control have to be assumed, and are stated
explicitly:

* the `Decoded` argument of every `pushManifest` is a function `decOf data mt` of
  the pushed bytes and media type (the harness derives it with the real JSON
  decoder), and the stored references agree with it (`ManOK`, preserved);
* no two distinct manifest byte strings in the set `D` of those ever pushed
  collide under `H` (`D := fun _ => True` is plain collision-freeness). Without
  this, different bytes could be stored under the same digest and the same media
  type with different references.
-/

/-- `op` takes its decoded references from `decOf` and its manifest bytes from `D`. -/
def OpOK (decOf : Bytes → Bytes → Decoded) (D : Bytes → Prop) : Op → Prop
  | .pushManifest _ _ data mt dec => D data ∧ dec = decOf data mt
  | _ => True

/-- Every stored manifest has bytes in `D` and the references `decOf` gives them. -/
def RepoManOK (decOf : Bytes → Bytes → Decoded) (D : Bytes → Prop) (rp : Repo) : Prop :=
  ∀ k b, alookup k rp.manifests = some b → D b.data ∧ decRefs (decOf b.data b.mediaType) = some b.refs

def ManOK (decOf : Bytes → Bytes → Decoded) (D : Bytes → Prop) (s : State) : Prop :=
  ∀ r rp, getRepo s r = some rp → RepoManOK decOf D rp

theorem RepoManOK_empty (decOf : Bytes → Bytes → Decoded) (D : Bytes → Prop) : RepoManOK decOf D emptyRepo :=
  fun _ _ h => by simp [emptyRepo, alookup] at h

theorem ManOK_init (decOf : Bytes → Bytes → Decoded) (D : Bytes → Prop) (imm : Bool) :
    ManOK decOf D (init imm) := fun _ _ h => by simp [init, getRepo, alookup] at h

theorem aerase_of_none {β : Type} {k : Bytes} {m : List (Bytes × β)} (h : alookup k m = none) :
    aerase k m = m := by
  induction m with
  | nil => rfl
  | cons p rest ih =>
    obtain ⟨k', v⟩ := p
    simp only [alookup] at h
    split at h
    · cases h
    · next hne => simp [aerase, hne, ih h]

/-- Only the membership of the starting references matters. -/
theorem Reach.mono_refs {rp : Repo} {n : Nat} {refs refs' : List RefInfo} {target : Bytes}
    (hsub : ∀ ref, ref ∈ refs → ref ∈ refs') (h : Reach rp n refs target) : Reach rp n refs' target := by
  cases h with
  | here hm hd => exact .here (hsub _ hm) hd
  | step hm hk hb h => exact .step (hsub _ hm) hk hb h
  | stepAs hm hk hb h => exact .stepAs (hsub _ hm) hk hb h

/-- Reachability transfers to another repository that keeps, for every manifest
reachable from `refs`, an entry with the same references.
F42: and the same bytes and media type, which decide what it refers to under the media
type a reference declares for it. -/
theorem Reach.transfer {rp rp' : Repo} {n : Nat} {refs : List RefInfo} {target : Bytes}
    (hsub : ∀ k b, ReachU rp refs k → alookup k rp.manifests = some b →
      ∃ b', alookup k rp'.manifests = some b' ∧ b'.data = b.data ∧ b'.mediaType = b.mediaType ∧
        b'.refs = b.refs)
    (h : Reach rp n refs target) : Reach rp' n refs target := by
  induction h with
  | here hm hd => exact .here hm hd
  | @step n refs target ref b hm hk hb _ ih =>
    obtain ⟨b', hb', _, _, hrefs⟩ := hsub _ b ⟨1, .here hm rfl⟩ hb
    refine .step hm hk hb' ?_
    rw [hrefs]
    exact ih fun k b0 ⟨m, hr⟩ hk0 => hsub k b0 ⟨m + 1, .step hm hk hb hr⟩ hk0
  | @stepAs n refs target ref b hm hk hb _ ih =>
    obtain ⟨b', hb', hd, hmt, _⟩ := hsub _ b ⟨1, .here hm rfl⟩ hb
    refine .stepAs hm hk hb' ?_
    rw [refsAs_congr hd hmt]
    exact ih fun k b0 ⟨m, hr⟩ hk0 => hsub k b0 ⟨m + 1, .stepAs hm hk hb hr⟩ hk0

section
variable (H : Bytes → Bytes) (decOf : Bytes → Bytes → Decoded) (D : Bytes → Prop)

theorem RepoStep.manOK {op : Op} {s : State} {rp rp' : Repo} (hop : OpOK decOf D op)
    (hok : RepoManOK decOf D rp) (h : RepoStep H s op rp rp') : RepoManOK decOf D rp' := by
  have hins : ∀ (data mt subj : Bytes) (rs : List RefInfo) (dec : Decoded),
      (∃ r t, op = .pushManifest r t data mt dec) → decRefs dec = some rs →
      ∀ k b, alookup k (ainsert (H data) ⟨mt, data, subj, rs⟩ rp.manifests) = some b →
        D b.data ∧ decRefs (decOf b.data b.mediaType) = some b.refs := by
    intro data mt subj rs dec hex hdec k b hk
    rw [alookup_ainsert] at hk
    split at hk
    · cases hk
      obtain ⟨r, t, rfl⟩ := hex
      obtain ⟨hD, rfl⟩ := hop
      exact ⟨hD, hdec⟩
    · exact hok _ _ hk
  cases h with
  | refl => exact hok
  | uploads ups => exact hok
  | insBlob k b ups _ => exact hok
  | insManifest data mt subj rs dec hex hdec _ _ => exact hins data mt subj rs dec hex hdec
  | insTagged t data mt subj rs dec hex hdec _ _ _ => exact hins data mt subj rs dec hex hdec
  | delBlob d _ => exact hok
  | delManifest d _ => exact fun k b hk => hok _ _ (alookup_of_aerase hk)
  | delTag t _ => exact hok

theorem Eff.manOK {op : Op} {s s' : State} (hop : OpOK decOf D op) (hs : ManOK decOf D s)
    (h : Eff H s op s') : ManOK decOf D s' := by
  intro r rp' hg
  rcases h.2 r with he | ⟨rp'', hg', hst⟩
  · exact hs r rp' (he ▸ hg)
  · rw [hg] at hg'; cases hg'
    refine RepoStep.manOK H decOf D hop ?_ hst
    cases hg0 : getRepo s r with
    | none => exact RepoManOK_empty decOf D
    | some rp => exact hs r rp hg0

theorem ManOK_step {s : State} {op : Op} (hop : OpOK decOf D op) (hs : ManOK decOf D s) :
    ManOK decOf D (step H s op).1 :=
  Eff.manOK H decOf D hop hs (step_eff H s op)

/-- One `RepoStep` in immutable mode: every manifest reachable from the tags keeps
its bytes, media type and references. -/
theorem RepoStep.reachable_manifest_kept {op : Op} {s : State} {rp rp' : Repo}
    (him : s.immutableTags = true) (hinv : RepoInv H rp) (hok : RepoManOK decOf D rp)
    (hop : OpOK decOf D op) (hinj : ∀ a b, D a → D b → H a = H b → a = b)
    (h : RepoStep H s op rp rp') {k : Bytes} {b : Blob}
    (hreach : ReachU rp (tagRefs rp) k) (hk : alookup k rp.manifests = some b) :
    ∃ b', alookup k rp'.manifests = some b' ∧ b'.data = b.data ∧ b'.mediaType = b.mediaType ∧
      b'.refs = b.refs := by
  have hins : ∀ (data mt subj : Bytes) (rs : List RefInfo) (dec : Decoded),
      (∃ r t, op = .pushManifest r t data mt dec) → decRefs dec = some rs →
      (s.immutableTags = true → ∀ b0, alookup (H data) rp.manifests = some b0 →
        taggedRefersTo rp (H data) = true → b0.mediaType = mt) →
      ∃ b', alookup k (ainsert (H data) ⟨mt, data, subj, rs⟩ rp.manifests) = some b' ∧
        b'.data = b.data ∧ b'.mediaType = b.mediaType ∧ b'.refs = b.refs := by
    intro data mt subj rs dec hex hdec hretype
    rw [alookup_ainsert]
    split
    · next e =>
      subst e
      obtain ⟨r, t, rfl⟩ := hex
      obtain ⟨hD, rfl⟩ := hop
      have hmt : b.mediaType = mt := hretype him b hk ((taggedRefersTo_iff rp _).2 hreach)
      have hdata : data = b.data := hinj _ _ hD (hok _ _ hk).1 (hinv.2 _ _ hk).symm
      have hrefs : some rs = some b.refs := by
        rw [← hdec, ← (hok _ _ hk).2, hdata, hmt]
      exact ⟨_, rfl, hdata, hmt.symm, Option.some.inj hrefs⟩
    · exact ⟨b, hk, rfl, rfl, rfl⟩
  cases h with
  | refl => exact ⟨b, hk, rfl, rfl, rfl⟩
  | uploads ups => exact ⟨b, hk, rfl, rfl, rfl⟩
  | insBlob k0 b0 ups _ => exact ⟨b, hk, rfl, rfl, rfl⟩
  | insManifest data mt subj rs dec hex hdec hretype _ => exact hins data mt subj rs dec hex hdec hretype
  | insTagged t data mt subj rs dec hex hdec hretype _ _ => exact hins data mt subj rs dec hex hdec hretype
  | delBlob d _ => exact ⟨b, hk, rfl, rfl, rfl⟩
  | delManifest d hno =>
    have hne : k ≠ d := fun e => hno ⟨him, e ▸ (taggedRefersTo_iff rp _).2 hreach⟩
    exact ⟨b, by simpa [alookup_aerase_ne hne] using hk, rfl, rfl, rfl⟩
  | delTag t hf => rw [him] at hf; cases hf

/-- One `RepoStep` in immutable mode: the tag references only grow. -/
theorem RepoStep.tagRefs_mono {op : Op} {s : State} {rp rp' : Repo}
    (him : s.immutableTags = true) (h : RepoStep H s op rp rp') :
    ∀ ref, ref ∈ tagRefs rp → ref ∈ tagRefs rp' := by
  cases h with
  | refl => exact fun _ h => h
  | uploads ups => exact fun _ h => h
  | insBlob k b ups _ => exact fun _ h => h
  | insManifest data mt subj rs dec _ _ _ _ => exact fun _ h => h
  | insTagged t data mt subj rs dec _ _ _ hnone _ =>
    intro ref href
    simp only [tagRefs, ainsert, aerase_of_none (hnone him), List.map_cons]
    exact List.mem_cons_of_mem _ href
  | delBlob d _ => exact fun _ h => h
  | delManifest d _ => exact fun _ h => h
  | delTag t hf => rw [him] at hf; cases hf

/-- One `RepoStep` in immutable mode: whatever is reachable from the tags stays
reachable, and if stored stays stored (manifests: with the same bytes, media type
and references). -/
theorem RepoStep.reach_retained {op : Op} {s : State} {rp rp' : Repo}
    (him : s.immutableTags = true) (hinv : RepoInv H rp) (hok : RepoManOK decOf D rp)
    (hop : OpOK decOf D op) (hinj : ∀ a b, D a → D b → H a = H b → a = b)
    (h : RepoStep H s op rp rp') {x : Bytes} (hreach : ReachU rp (tagRefs rp) x) :
    ReachU rp' (tagRefs rp') x ∧
    (∀ b, alookup x rp.blobs = some b → ∃ b', alookup x rp'.blobs = some b') ∧
    (∀ b, alookup x rp.manifests = some b → ∃ b', alookup x rp'.manifests = some b' ∧
      b'.data = b.data ∧ b'.mediaType = b.mediaType ∧ b'.refs = b.refs) := by
  refine ⟨?_, ?_, fun b hb => RepoStep.reachable_manifest_kept H decOf D him hinv hok hop hinj h hreach hb⟩
  · obtain ⟨n, hn⟩ := hreach
    refine ⟨n, Reach.mono_refs (RepoStep.tagRefs_mono H him h) (Reach.transfer ?_ hn)⟩
    intro k b hrk hk
    exact RepoStep.reachable_manifest_kept H decOf D him hinv hok hop hinj h hrk hk
  · intro b hb
    cases h with
    | refl => exact ⟨b, hb⟩
    | uploads ups => exact ⟨b, hb⟩
    | insBlob k b0 ups _ =>
      simp only [alookup_ainsert]
      split
      · exact ⟨_, rfl⟩
      · exact ⟨b, hb⟩
    | insManifest data mt subj rs dec _ _ _ _ => exact ⟨b, hb⟩
    | insTagged t data mt subj rs dec _ _ _ _ _ => exact ⟨b, hb⟩
    | delBlob d hno =>
      have hne : x ≠ d := fun e => hno ⟨him, e ▸ (taggedRefersTo_iff rp _).2 hreach⟩
      exact ⟨b, by simpa [alookup_aerase_ne hne] using hb⟩
    | delManifest d _ => exact ⟨b, hb⟩
    | delTag t hf => rw [him] at hf; cases hf

theorem Eff.reach_retained {op : Op} {s s' : State} {r : Bytes} {rp : Repo}
    (him : s.immutableTags = true) (hinv : Inv H s) (hok : ManOK decOf D s)
    (hop : OpOK decOf D op) (hinj : ∀ a b, D a → D b → H a = H b → a = b)
    (h : Eff H s op s') (hg : getRepo s r = some rp) {x : Bytes} (hreach : ReachU rp (tagRefs rp) x) :
    ∃ rp', getRepo s' r = some rp' ∧ ReachU rp' (tagRefs rp') x ∧
      (∀ b, alookup x rp.blobs = some b → ∃ b', alookup x rp'.blobs = some b') ∧
      (∀ b, alookup x rp.manifests = some b → ∃ b', alookup x rp'.manifests = some b' ∧
        b'.data = b.data ∧ b'.mediaType = b.mediaType ∧ b'.refs = b.refs) := by
  rcases h.2 r with he | ⟨rp', hg', hst⟩
  · exact ⟨rp, he.trans hg, hreach, fun b hb => ⟨b, hb⟩, fun b hb => ⟨b, hb, rfl, rfl, rfl⟩⟩
  · rw [hg] at hst
    exact ⟨rp', hg', RepoStep.reach_retained H decOf D him (hinv r rp hg) (hok r rp hg) hop hinj hst hreach⟩

/-- Induction over a history whose operations satisfy a side condition. -/
theorem run_induction_ops {P : State → Prop} {Q : Op → Prop}
    (hstep : ∀ s op, Q op → P s → P (step H s op).1)
    (s : State) (h : P s) (ops : List Op) (hops : ∀ op, op ∈ ops → Q op) : P (run H s ops).1 := by
  induction ops generalizing s with
  | nil => exact h
  | cons op ops ih =>
    rw [run_cons]
    exact ih _ (hstep s op (hops op List.mem_cons_self) h) fun o ho => hops o (List.mem_cons_of_mem _ ho)

end

end OciModel.Mem
