/-
Lemmas about the token-response decoder and its consumer (`TokenDecode.lean`): member order,
members that select no field, repeated members, type errors, canonical documents, trailing bytes,
the arithmetic of lifetimes, and the link to the transport model's `finish`.
-/
import OciModel.TokenDecode
import OciModel.ManifestDecodeLemmas
import OciModel.AuthTransport
set_option linter.unusedSimpArgs false
namespace OciModel.TokenDecode
open OciModel OciModel.Json OciModel.ManifestDecode

/-! ## Member order -/

theorem tokStep_comm (a b : Bytes × JVal) (h : Indep tokenTable a b) (w : WireToken) :
    (tokStep w a).bind (tokStep · b) = (tokStep w b).bind (tokStep · a) := by
  rcases indep_symm tokenTable a b (Or.inl h) with hne | ⟨ha, hb⟩
  · unfold tokStep
    cases hfa : lookupField tokenTable a.1 with
    | none => simp
    | some fa =>
      cases hfb : lookupField tokenTable b.1 with
      | none => simp [hfa]
      | some fb =>
        have hab : fa ≠ fb := by intro e; apply hne; rw [hfa, hfb, e]
        cases fa <;> cases fb <;> first | exact absurd rfl hab | skip
        all_goals first
          | ((cases h1 : setStr a.2 w.token <;> cases h2 : setStr b.2 w.accessToken <;> simp [h1, h2]); done)
          | ((cases h1 : setStr a.2 w.token <;> cases h2 : setStr b.2 w.refreshToken <;> simp [h1, h2]); done)
          | ((cases h1 : setStr a.2 w.token <;> cases h2 : setInt b.2 w.expiresIn <;> simp [h1, h2]); done)
          | ((cases h1 : setStr a.2 w.accessToken <;> cases h2 : setStr b.2 w.token <;> simp [h1, h2]); done)
          | ((cases h1 : setStr a.2 w.accessToken <;> cases h2 : setStr b.2 w.refreshToken <;> simp [h1, h2]); done)
          | ((cases h1 : setStr a.2 w.accessToken <;> cases h2 : setInt b.2 w.expiresIn <;> simp [h1, h2]); done)
          | ((cases h1 : setStr a.2 w.refreshToken <;> cases h2 : setStr b.2 w.token <;> simp [h1, h2]); done)
          | ((cases h1 : setStr a.2 w.refreshToken <;> cases h2 : setStr b.2 w.accessToken <;> simp [h1, h2]); done)
          | ((cases h1 : setStr a.2 w.refreshToken <;> cases h2 : setInt b.2 w.expiresIn <;> simp [h1, h2]); done)
          | ((cases h1 : setInt a.2 w.expiresIn <;> cases h2 : setStr b.2 w.token <;> simp [h1, h2]); done)
          | ((cases h1 : setInt a.2 w.expiresIn <;> cases h2 : setStr b.2 w.accessToken <;> simp [h1, h2]); done)
          | ((cases h1 : setInt a.2 w.expiresIn <;> cases h2 : setStr b.2 w.refreshToken <;> simp [h1, h2]); done)
  · simp [tokStep, ha, hb]

/-- The members of a token document may come in any order, as long as no two select the same field. -/
theorem decodeVal_perm {l₁ l₂ : List (Bytes × JVal)} (p : l₁.Perm l₂) (hp : l₁.Pairwise (Indep tokenTable)) :
    decodeVal (.obj l₁) = decodeVal (.obj l₂) := by
  simp only [decodeVal]
  refine perm_foldlM tokStep p (fun a b => Indep tokenTable a b ∨ Indep tokenTable b a) (fun a b h => h.symm)
    (hp.imp Or.inl) ?_ {}
  intro a b h d
  rcases h with h | h
  · exact tokStep_comm a b h d
  · exact (tokStep_comm b a h d).symm

/-! ## Members that select no field, repeated members, type errors -/

theorem decodeVal_unknown (l₁ l₂ : List (Bytes × JVal)) (k : Bytes) (v : JVal) (hk : lookupField tokenTable k = none) :
    decodeVal (.obj (l₁ ++ (k, v) :: l₂)) = decodeVal (.obj (l₁ ++ l₂)) := by
  simp only [decodeVal, List.foldlM_append, List.foldlM_cons]
  congr 1; funext d
  simp [tokStep, hk]

/-- Decoding is a left fold: the last member is decoded into what the others left. -/
theorem decodeVal_snoc (l : List (Bytes × JVal)) (kv : Bytes × JVal) :
    decodeVal (.obj (l ++ [kv])) = (decodeVal (.obj l)).bind (tokStep · kv) := by
  simp only [decodeVal, List.foldlM_append, List.foldlM_cons, List.foldlM_nil]
  cases List.foldlM tokStep {} l <;> simp

/-- A member that is a type error whatever the struct holds fails the whole document, wherever it stands. -/
theorem decodeVal_bad_member (l₁ l₂ : List (Bytes × JVal)) (kv : Bytes × JVal) (h : ∀ w, tokStep w kv = none) :
    decodeVal (.obj (l₁ ++ kv :: l₂)) = none := by
  simp only [decodeVal, List.foldlM_append, List.foldlM_cons]
  cases List.foldlM tokStep {} l₁ with
  | none => rfl
  | some w => simp [h w]

/-- `strconv.ParseInt` takes digits only, after an optional minus sign. -/
theorem parseInt64_digits (t : Bytes) (n : Int) (h : parseInt64 t = some n) :
    ∀ c ∈ t, isDigit c = true ∨ c.toNat = 0x2D := by
  unfold parseInt64 at h
  cases t with
  | nil => simp at h
  | cons c rest =>
    simp only at h
    by_cases hc : c.toNat = 0x2D
    · simp only [hc, if_true] at h
      cases hd : digitsVal rest with
      | none => simp [hd] at h
      | some m =>
        intro x hx
        simp only [List.mem_cons] at hx
        rcases hx with rfl | hx
        · exact Or.inr hc
        · left
          unfold digitsVal at hd
          cases rest with
          | nil => simp at hd
          | cons r rs =>
            simp only at hd
            by_cases hall : (r :: rs).all isDigit = true
            · exact List.all_eq_true.mp hall x hx
            · simp [hall] at hd
    · simp only [hc, if_false] at h
      cases hd : digitsVal (c :: rest) with
      | none => simp [hd] at h
      | some m =>
        intro x hx
        left
        unfold digitsVal at hd
        simp only at hd
        by_cases hall : (c :: rest).all isDigit = true
        · exact List.all_eq_true.mp hall x hx
        · simp [hall] at hd

/-- A number text with a fraction or an exponent is not an `int`. -/
theorem parseInt64_no_fraction_no_exponent (t : Bytes) (c : UInt8) (hc : c ∈ t)
    (h : c.toNat = 0x2E ∨ c.toNat = 0x65 ∨ c.toNat = 0x45 ∨ c.toNat = 0x2B) : parseInt64 t = none := by
  cases hp : parseInt64 t with
  | none => rfl
  | some n =>
    rcases parseInt64_digits t n hp c hc with hd | hm
    · simp [isDigit] at hd; omega
    · omega

/-! ## Canonical documents -/

theorem setStr_str (s cur : Bytes) : setStr (.str s) cur = some s := rfl

theorem decodeVal_tokenJ (w : WireToken) (h : w.OK) : decodeVal (tokenJ w) = some w := by
  have hk1 : lookupField tokenTable (strBytes "token") = some .token := by decide
  have hk2 : lookupField tokenTable (strBytes "access_token") = some .accessToken := by decide
  have hk3 : lookupField tokenTable (strBytes "refresh_token") = some .refreshToken := by decide
  have hk4 : lookupField tokenTable (strBytes "expires_in") = some .expiresIn := by decide
  have hi := parseInt64_intText w.expiresIn h.2.2.2.1 h.2.2.2.2
  simp [decodeVal, tokenJ, tokStep, hk1, hk2, hk3, hk4, setStr, setInt, hi]

theorem wf_tokenJ (w : WireToken) (h : w.OK) : WF (tokenJ w) := by
  have hv : ValidUtf8 (strBytes "token") ∧ ValidUtf8 (strBytes "access_token") ∧
      ValidUtf8 (strBytes "refresh_token") ∧ ValidUtf8 (strBytes "expires_in") := by decide
  simp only [tokenJ, WF, WFM]
  exact ⟨hv.1, h.1, hv.2.1, h.2.1, hv.2.2.1, h.2.2.1, hv.2.2.2, numOK_intText _, trivial⟩

theorem depth_tokenJ (w : WireToken) : depth (tokenJ w) = 1 := by
  simp [tokenJ, depth, depthM]

theorem decodeToken_tokenJ (w : WireToken) (h : w.OK) (ws1 ws2 : Bytes)
    (h1 : ws1.all isWs = true) (h2 : ws2.all isWs = true) :
    decodeToken (ws1 ++ print (tokenJ w) ++ ws2) = .ok w := by
  have hp := parse_print_ws (tokenJ w) (wf_tokenJ w h) (by rw [depth_tokenJ]; decide) ws1 ws2 h1 h2
  simp only [decodeToken, hp, decodeVal_tokenJ w h]

/-! ## Trailing bytes -/

theorem decodeVal_not_num (v : JVal) (w : WireToken) (h : decodeVal v = some w) : ∀ x, v ≠ .num x := by
  intro x e; subst e; simp [decodeVal] at h

theorem decodeToken_trailing (d junk : Bytes) (w : WireToken) (h : decodeToken d = .ok w)
    (hj : junk.all isWs = false) : decodeToken (d ++ junk) = .error .syntax := by
  unfold decodeToken at h ⊢
  cases hp : parse d with
  | none => simp [hp] at h
  | some v =>
    simp only [hp] at h
    cases hd : decodeVal v with
    | none => simp [hd] at h
    | some m =>
      have hv := decodeVal_not_num v m hd
      unfold parse at hp
      cases hl : lex d with
      | none => simp [hl] at hp
      | some ts =>
        simp only [hl] at hp
        have := parse_append_none d junk ts v hl hp hj (Or.inl (parseToks_endsNum ts v hp hv))
        simp [this]

/-! ## Lifetimes -/

/-- `int64` arithmetic is exact as long as `expires_in` seconds fit into `int64` nanoseconds. -/
theorem wrap64_exact (n : Int) (h1 : -9223372036 ≤ n) (h2 : n ≤ 9223372036) : wrap64 (n * second) = n * second := by
  unfold wrap64 second
  omega

-- F41: the clamp and what it gives
theorem clampSeconds_range (n : Int) : -9223372036 ≤ clampSeconds n ∧ clampSeconds n ≤ 9223372036 := by
  unfold clampSeconds maxSeconds
  omega

/-- In range the clamp changes nothing. -/
theorem clampSeconds_exact (n : Int) (h1 : -9223372036 ≤ n) (h2 : n ≤ 9223372036) : clampSeconds n = n := by
  unfold clampSeconds maxSeconds
  omega

theorem clampSeconds_hi (n : Int) (h : 9223372036 ≤ n) : clampSeconds n = 9223372036 := by
  unfold clampSeconds maxSeconds
  omega

theorem clampSeconds_lo (n : Int) (h : n ≤ -9223372036) : clampSeconds n = -9223372036 := by
  unfold clampSeconds maxSeconds
  omega

/-- The clamp keeps the sign. -/
theorem clampSeconds_neg (n : Int) (h : n < 0) : clampSeconds n ≤ -1 := by
  unfold clampSeconds maxSeconds
  omega

theorem clampSeconds_pos (n : Int) (h : 0 < n) : 1 ≤ clampSeconds n := by
  unfold clampSeconds maxSeconds
  omega

/-- The clamp is monotone: a server that states a longer lifetime never gets a shorter one. -/
theorem clampSeconds_mono (a b : Int) (h : a ≤ b) : clampSeconds a ≤ clampSeconds b := by
  unfold clampSeconds maxSeconds
  omega

/-- The `int64` product of the clamped number of seconds never wraps. -/
theorem wrap64_clamp (n : Int) : wrap64 (clampSeconds n * second) = clampSeconds n * second :=
  wrap64_exact _ (clampSeconds_range n).1 (clampSeconds_range n).2

/-- The lifetime of every non-zero `expires_in`, without `int64` in it. -/
theorem lifetimeNs_eq (n : Int) (h0 : n ≠ 0) : lifetimeNs n = clampSeconds n * second := by
  simp [lifetimeNs, h0, wrap64_clamp]

theorem lifetimeNs_exact (n : Int) (h0 : n ≠ 0) (h1 : -9223372036 ≤ n) (h2 : n ≤ 9223372036) :
    lifetimeNs n = n * second := by
  rw [lifetimeNs_eq n h0, clampSeconds_exact n h1 h2]

/-- A negative `expires_in`, of ANY magnitude, is a lifetime of at most −1 s. -/
theorem lifetimeNs_neg (n : Int) (h : n < 0) : lifetimeNs n ≤ -second := by
  rw [lifetimeNs_eq n (by omega)]
  have := clampSeconds_neg n h
  unfold second
  omega

/-- A positive `expires_in`, of ANY magnitude, is a lifetime of at least 1 s. -/
theorem lifetimeNs_pos (n : Int) (h : 0 < n) : second ≤ lifetimeNs n := by
  rw [lifetimeNs_eq n (by omega)]
  have := clampSeconds_pos n h
  unfold second
  omega

-- F41: the computation as it was before the fix, kept for the record (`Props/C10T.lean`, `…_before_F41`)
/-- `time.Duration(tok.ExpiresIn) * time.Second` on the unclamped `expires_in`: the `int64` product wraps. -/
def lifetimeNsBeforeF41 (expiresIn : Int) : Int :=
  if expiresIn = 0 then 60 * second else wrap64 (expiresIn * second)

/-- The fix changes nothing where the old product did not wrap. -/
theorem lifetimeNs_eq_before_F41_in_range (n : Int) (h1 : -9223372036 ≤ n) (h2 : n ≤ 9223372036) :
    lifetimeNs n = lifetimeNsBeforeF41 n := by
  unfold lifetimeNs lifetimeNsBeforeF41
  rw [clampSeconds_exact n h1 h2]

/-! ## The transport model's `finish` -/

theorem pickToken_eq (w : WireToken) : Auth.pickToken w.token w.accessToken = pickAccess w := rfl

-- F41: no upper bound on `expires_in` any more (was `h1 : w.expiresIn ≤ 9223372036`): both models clamp
/-- The lifetime of the transport model (seconds, a natural number, then milliseconds) is this model's
lifetime (nanoseconds) for EVERY `expires_in` that is not negative. -/
theorem lifeOf_eq (w : WireToken) (h0 : 0 ≤ w.expiresIn) :
    ((Auth.lifeOf w.expiresIn.toNat * 1000 : Nat) : Int) * 1000000 = lifetimeNs w.expiresIn := by
  by_cases hz : w.expiresIn = 0
  · simp [hz, Auth.lifeOf, lifetimeNs, Auth.defaultExpirySec, second]
  · have hn : w.expiresIn.toNat ≠ 0 := by omega
    have hc : ((w.expiresIn.toNat : Nat) : Int) = w.expiresIn := Int.toNat_of_nonneg h0
    rw [lifetimeNs_eq w.expiresIn hz]
    simp only [Auth.lifeOf, hn, if_false, second, Auth.maxExpirySec]
    by_cases hb : w.expiresIn ≤ 9223372036
    · rw [clampSeconds_exact _ (by omega) hb, Nat.min_eq_left (by omega)]
      omega
    · rw [clampSeconds_hi _ (by omega), Nat.min_eq_right (by omega)]
      omega

end OciModel.TokenDecode
