/-
Helper lemmas about the `ociref` model (`OciModel/Ref.lean`): generic
`takeWhile`/`dropWhile` facts, alphabet lemmas for the recognisers, and the
structure of `parseRest`/`matchRef`/`parseRelative`.
-/
import OciModel.Ref

namespace OciModel.Ref

/-! ### Generic list lemmas -/

theorem dropWhile_head_false {α} (p : α → Bool) {l : List α} {c : α} {t : List α}
    (h : l.dropWhile p = c :: t) : p c = false := by
  induction l with
  | nil => simp at h
  | cons a l ih =>
    rw [List.dropWhile_cons] at h
    split at h
    · exact ih h
    · rename_i hpa
      injection h with h1 h2
      subst h1; simpa using hpa

theorem mem_takeWhile_true {α} (p : α → Bool) {l : List α} {c : α}
    (h : c ∈ l.takeWhile p) : p c = true := by
  induction l with
  | nil => simp at h
  | cons a l ih =>
    rw [List.takeWhile_cons] at h
    split at h
    · rename_i hpa
      rcases List.mem_cons.mp h with h | h
      · subst h; exact hpa
      · exact ih h
    · simp at h

theorem takeWhile_append_cons {α} (p : α → Bool) {a : List α} {x : α} {b : List α}
    (ha : ∀ c ∈ a, p c = true) (hx : p x = false) : (a ++ x :: b).takeWhile p = a := by
  rw [List.takeWhile_append_of_pos ha, List.takeWhile_cons]
  simp [hx]

theorem dropWhile_append_cons {α} (p : α → Bool) {a : List α} {x : α} {b : List α}
    (ha : ∀ c ∈ a, p c = true) (hx : p x = false) : (a ++ x :: b).dropWhile p = x :: b := by
  rw [List.dropWhile_append_of_pos ha, List.dropWhile_cons]
  simp [hx]

theorem takeWhile_all {α} (p : α → Bool) {a : List α}
    (ha : ∀ c ∈ a, p c = true) : a.takeWhile p = a := by
  have := List.takeWhile_append_of_pos (p := p) (l₁ := a) (l₂ := []) ha
  simpa using this

theorem dropWhile_all {α} (p : α → Bool) {a : List α}
    (ha : ∀ c ∈ a, p c = true) : a.dropWhile p = [] := by
  have := List.dropWhile_append_of_pos (p := p) (l₁ := a) (l₂ := []) ha
  simpa using this

/-! ### `splitOn` -/

theorem splitOn_ne_nil (sep : UInt8) (l : Bytes) : splitOn sep l ≠ [] := by
  cases l with
  | nil => simp [splitOn]
  | cons b rest =>
    unfold splitOn
    split
    · simp
    · split <;> simp

/-- Every byte of `l` is the separator or lies in one of the pieces. -/
theorem mem_splitOn (sep : UInt8) {l : Bytes} {c : UInt8} (h : c ∈ l) :
    c = sep ∨ ∃ p ∈ splitOn sep l, c ∈ p := by
  induction l with
  | nil => simp at h
  | cons b rest ih =>
    unfold splitOn
    by_cases hb : b = sep
    · simp only [hb, if_true]
      rcases List.mem_cons.mp h with h | h
      · left; rw [h, hb]
      · rcases ih h with h' | ⟨p, hp, hc⟩
        · left; exact h'
        · right; exact ⟨p, List.mem_cons_of_mem _ hp, hc⟩
    · simp only [hb, if_false]
      cases hs : splitOn sep rest with
      | nil => exact absurd hs (splitOn_ne_nil sep rest)
      | cons p ps =>
        simp only
        rcases List.mem_cons.mp h with h | h
        · right; exact ⟨b :: p, by simp, by simp [h]⟩
        · rcases ih h with h' | ⟨q, hq, hc⟩
          · left; exact h'
          · right
            rw [hs] at hq
            rcases List.mem_cons.mp hq with hq | hq
            · exact ⟨b :: p, by simp, by simp [← hq, hc]⟩
            · exact ⟨q, List.mem_cons_of_mem _ hq, hc⟩

/-! ### Structure of `parseRest` -/

theorem isHost_nil : isHost [] = false := by decide

theorem isHost_ne_nil {h : Bytes} (hh : isHost h = true) : h ≠ [] := by
  intro e; subst e; simp [isHost_nil] at hh

/-- What `parseRest` returns: the pieces concatenate back to the input, the
repository is valid, and an absent tag/digest is represented by `[]` exactly
when the corresponding separator was absent. -/
theorem parseRest_some {s p t d : Bytes} (h : parseRest s = some (p, t, d)) :
    isRepo p = true ∧
    p ++ (if t ≠ [] then cColon :: t else []) ++ (if d ≠ [] then cAt :: d else []) = s := by
  unfold parseRest at h
  simp only at h
  have hsplit := List.takeWhile_append_dropWhile
    (p := fun c => c != cColon && c != cAt) (l := s)
  generalize hrepo : s.takeWhile (fun c => c != cColon && c != cAt) = repo at h hsplit
  generalize htail : s.dropWhile (fun c => c != cColon && c != cAt) = tail at h hsplit
  split at h
  · exact absurd h (by simp)
  · rename_i hrep
    have hrep' : isRepo repo = true := by simpa using hrep
    split at h
    · -- no tail
      simp only [Option.some.injEq, Prod.mk.injEq] at h
      obtain ⟨rfl, rfl, rfl⟩ := h
      exact ⟨hrep', by simpa using hsplit⟩
    · rename_i c t'
      have hc := dropWhile_head_false _ htail
      split at h
      · rename_i hcat
        have hcat' : c = cAt := by simpa using hcat
        split at h
        · rename_i hok
          simp only [Option.some.injEq, Prod.mk.injEq] at h
          obtain ⟨rfl, rfl, rfl⟩ := h
          simp only [Bool.and_eq_true, bne_iff_ne] at hok
          refine ⟨hrep', ?_⟩
          simp [hok.1, ← hsplit, hcat']
        · exact absurd h (by simp)
      · rename_i hcat
        have hcat' : c ≠ cAt := by simpa using hcat
        have hcol : c = cColon := by
          simp only [Bool.and_eq_false_iff, bne_eq_false_iff_eq] at hc
          rcases hc with hc | hc
          · exact hc
          · exact absurd hc hcat'
        have hsplit2 := List.takeWhile_append_dropWhile (p := fun c => c != cAt) (l := t')
        generalize htag : t'.takeWhile (fun c => c != cAt) = tag at h hsplit2
        generalize hdd : t'.dropWhile (fun c => c != cAt) = dd at h hsplit2
        split at h
        · split at h
          · rename_i hne
            simp only [Option.some.injEq, Prod.mk.injEq] at h
            obtain ⟨rfl, rfl, rfl⟩ := h
            have hne' : tag ≠ [] := by simpa using hne
            refine ⟨hrep', ?_⟩
            simp [hne', ← hsplit, hcol, ← hsplit2]
          · exact absurd h (by simp)
        · rename_i c2 d'
          have hc2 := dropWhile_head_false _ hdd
          have hc2' : c2 = cAt := by simpa using hc2
          split at h
          · rename_i hok
            simp only [Option.some.injEq, Prod.mk.injEq] at h
            obtain ⟨rfl, rfl, rfl⟩ := h
            simp only [Bool.and_eq_true, bne_iff_ne] at hok
            refine ⟨hrep', ?_⟩
            simp [hok.1, hok.2.1, ← hsplit, hcol, ← hsplit2, hc2']
          · exact absurd h (by simp)

/-! ### Structure of `matchRef`, `parseRelative`, `parse` -/

theorem print_nohost (p t d : Bytes) :
    print ⟨[], p, t, d⟩ =
      p ++ (if t ≠ [] then cColon :: t else []) ++ (if d ≠ [] then cAt :: d else []) := by
  simp [print]

theorem print_host {h : Bytes} (hh : h ≠ []) (p t d : Bytes) :
    print ⟨h, p, t, d⟩ =
      h ++ cSlash :: (p ++ (if t ≠ [] then cColon :: t else []) ++
        (if d ≠ [] then cAt :: d else [])) := by
  simp [print, hh]

theorem matchRef_some {s : Bytes} {r : Reference} (h : matchRef s = some r) :
    (r.host = [] ∨ isHost r.host = true) ∧ isRepo r.repo = true ∧ print r = s := by
  unfold matchRef at h
  simp only at h
  have hsplit := List.takeWhile_append_dropWhile (p := fun c => c != cSlash) (l := s)
  generalize hfirst : s.takeWhile (fun c => c != cSlash) = first at h hsplit
  generalize hdrop : s.dropWhile (fun c => c != cSlash) = dr at h hsplit
  -- the fallback (no host) branch
  have fallback : ((parseRest s).map fun (p, t, d) => (⟨[], p, t, d⟩ : Reference)) = some r →
      (r.host = [] ∨ isHost r.host = true) ∧ isRepo r.repo = true ∧ print r = s := by
    intro h
    cases hpr : parseRest s with
    | none => simp [hpr] at h
    | some ptd =>
      obtain ⟨p, t, d⟩ := ptd
      simp only [hpr, Option.map_some, Option.some.injEq] at h
      subst h
      obtain ⟨h1, h2⟩ := parseRest_some hpr
      exact ⟨Or.inl rfl, h1, by rw [print_nohost]; exact h2⟩
  cases dr with
  | nil => exact fallback (by simpa using h)
  | cons c rest =>
    have hc : c = cSlash := by simpa using dropWhile_head_false _ hdrop
    simp only at h
    by_cases hh : isHost first = true
    · simp only [hh, if_true] at h
      cases hpr : parseRest rest with
      | none => exact fallback (by simpa [hpr] using h)
      | some ptd =>
        obtain ⟨p, t, d⟩ := ptd
        simp only [hpr, Option.map_some, Option.some.injEq] at h
        subst h
        obtain ⟨h1, h2⟩ := parseRest_some hpr
        refine ⟨Or.inr hh, h1, ?_⟩
        rw [print_host (isHost_ne_nil hh), h2, ← hc]
        exact hsplit
    · simp only [hh] at h
      exact fallback (by simpa using h)

theorem parseRelative_some {s : Bytes} {r : Reference} (h : parseRelative s = some r) :
    matchRef s = some r ∧ (r.digest = [] ∨ isDigest r.digest = true) ∧
      (r.tag = [] ∨ isTag r.tag = true) ∧ r.repo.length ≤ 255 := by
  unfold parseRelative at h
  cases hm : matchRef s with
  | none => simp [hm] at h
  | some r' =>
    simp only [hm] at h
    split at h
    · exact absurd h (by simp)
    · rename_i h1
      split at h
      · exact absurd h (by simp)
      · rename_i h2
        split at h
        · exact absurd h (by simp)
        · rename_i h3
          simp only [Option.some.injEq] at h
          subst h
          refine ⟨rfl, ?_, ?_, by omega⟩
          · by_cases hd : r'.digest = []
            · exact Or.inl hd
            · right; simpa [hd] using h1
          · by_cases ht : r'.tag = []
            · exact Or.inl ht
            · right; simpa [ht] using h2

theorem parse_some {s : Bytes} {r : Reference} (h : parse s = some r) :
    r.host ≠ [] ∧ parseRelative s = some r := by
  unfold parse at h
  cases hp : parseRelative s with
  | none => simp [hp] at h
  | some r' =>
    simp only [hp] at h
    split at h
    · exact absurd h (by simp)
    · rename_i hne
      simp only [Option.some.injEq] at h
      subst h
      exact ⟨hne, rfl⟩

theorem isTag_length (t : Bytes) (h : isTag t = true) : t.length ≤ 128 ∧ t ≠ [] := by
  cases t with
  | nil => simp [isTag] at h
  | cons c rest =>
    simp only [isTag, Bool.and_eq_true, decide_eq_true_eq] at h
    exact ⟨h.1.1, by simp⟩

/-! ### Alphabet lemmas: characters -/

theorem isAlnum_ne_slash {c : UInt8} (h : isAlnum c = true) : c ≠ cSlash := by
  rintro rfl; revert h; decide
theorem isDigit_ne_slash {c : UInt8} (h : isDigit c = true) : c ≠ cSlash := by
  rintro rfl; revert h; decide
theorem isIPv6Char_ne_slash {c : UInt8} (h : isIPv6Char c = true) : c ≠ cSlash := by
  rintro rfl; revert h; decide
theorem isAlnumLower_ne_colon {c : UInt8} (h : isAlnumLower c = true) : c ≠ cColon := by
  rintro rfl; revert h; decide
theorem isAlnumLower_ne_at {c : UInt8} (h : isAlnumLower c = true) : c ≠ cAt := by
  rintro rfl; revert h; decide
theorem isWord_ne_at {c : UInt8} (h : isWord c = true) : c ≠ cAt := by
  rintro rfl; revert h; decide
theorem isHexLower_ne_nl {c : UInt8} (h : isHexLower c = true) : c ≠ cNL := by
  rintro rfl; revert h; decide

/-! ### A valid host contains no `/` -/

theorem isDomainComponent_no_slash {s : Bytes} (h : isDomainComponent s = true) :
    ∀ c ∈ s, c ≠ cSlash := by
  cases s with
  | nil => simp
  | cons a rest =>
    simp only [isDomainComponent, Bool.and_eq_true, List.all_eq_true, Bool.or_eq_true,
      beq_iff_eq] at h
    intro c hc
    rcases List.mem_cons.mp hc with hc | hc
    · subst hc; exact isAlnum_ne_slash h.1.1
    · rcases h.1.2 c hc with h' | h'
      · exact isAlnum_ne_slash h'
      · subst h'; decide

theorem isPort_no_slash {s : Bytes} (h : isPort s = true) : ∀ c ∈ s, c ≠ cSlash := by
  simp only [isPort, Bool.and_eq_true, List.all_eq_true] at h
  intro c hc
  exact isDigit_ne_slash (h.2 c hc)

theorem isHost_no_slash {h : Bytes} (hh : isHost h = true) : ∀ c ∈ h, c ≠ cSlash := by
  unfold isHost at hh
  split at hh
  · rename_i rest
    simp only at hh
    have hsplit := List.takeWhile_append_dropWhile (p := fun c => c != 93) (l := rest)
    generalize hbody : rest.takeWhile (fun c => c != 93) = body at hh hsplit
    generalize hdrop : rest.dropWhile (fun c => c != 93) = dr at hh hsplit
    cases dr with
    | nil => simp at hh
    | cons x after =>
      have hx : x = 93 := by simpa using dropWhile_head_false _ hdrop
      simp only [Bool.and_eq_true, List.all_eq_true] at hh
      obtain ⟨⟨_, hb⟩, hafter⟩ := hh
      intro c hc
      rcases List.mem_cons.mp hc with hc | hc
      · subst hc; decide
      · rw [← hsplit] at hc
        rcases List.mem_append.mp hc with hc | hc
        · exact isIPv6Char_ne_slash (hb c hc)
        · rcases List.mem_cons.mp hc with hc | hc
          · rw [hc, hx]; decide
          · cases after with
            | nil => simp at hc
            | cons y p =>
              simp only [Bool.and_eq_true, beq_iff_eq] at hafter
              rcases List.mem_cons.mp hc with hc | hc
              · rw [hc, hafter.1]; decide
              · exact isPort_no_slash hafter.2 c hc
  · simp only at hh
    have hsplit := List.takeWhile_append_dropWhile (p := fun c => c != cColon) (l := h)
    generalize hhp : h.takeWhile (fun c => c != cColon) = hostPart at hh hsplit
    generalize hdrop : h.dropWhile (fun c => c != cColon) = dr at hh hsplit
    have hcomps : (splitOn cDot hostPart).all isDomainComponent = true := by
      cases dr with
      | nil => simp only [Bool.and_eq_true] at hh; exact hh.2
      | cons x p => simp only [Bool.and_eq_true] at hh; exact hh.1
    have hhost : ∀ c ∈ hostPart, c ≠ cSlash := by
      intro c hc
      rcases mem_splitOn cDot hc with hc | ⟨q, hq, hcq⟩
      · subst hc; decide
      · exact isDomainComponent_no_slash (List.all_eq_true.mp hcomps q hq) c hcq
    intro c hc
    rw [← hsplit] at hc
    rcases List.mem_append.mp hc with hc | hc
    · exact hhost c hc
    · cases dr with
      | nil => simp at hc
      | cons x p =>
        have hx : x = cColon := by simpa using dropWhile_head_false _ hdrop
        simp only [Bool.and_eq_true] at hh
        rcases List.mem_cons.mp hc with hc | hc
        · rw [hc, hx]; decide
        · exact isPort_no_slash hh.2 c hc

/-! ### A valid repository contains neither `:` nor `@` -/

/-- The repository alphabet fact we need. -/
def NoColAt (c : UInt8) : Prop := c ≠ cColon ∧ c ≠ cAt

theorem isAlnumLower_noColAt {c : UInt8} (h : isAlnumLower c = true) : NoColAt c :=
  ⟨isAlnumLower_ne_colon h, isAlnumLower_ne_at h⟩

theorem isSeparator_noColAt {r : Bytes} (h : isSeparator r = true) : ∀ c ∈ r, NoColAt c := by
  simp only [isSeparator, Bool.or_eq_true, beq_iff_eq, Bool.and_eq_true, List.all_eq_true] at h
  intro c hc
  rcases h with ((h | h) | h) | h
  · subst h; simp at hc; subst hc; exact ⟨by decide, by decide⟩
  · subst h; simp at hc; subst hc; exact ⟨by decide, by decide⟩
  · subst h; simp at hc; subst hc; exact ⟨by decide, by decide⟩
  · have := h.2 c hc; subst this; exact ⟨by decide, by decide⟩

theorem pathTail_noColAt : ∀ (fuel : Nat) (l : Bytes), pathTail fuel l = true → ∀ c ∈ l, NoColAt c
  | _, [], _ => by simp
  | 0, _ :: _, h => by simp [pathTail] at h
  | fuel + 1, a :: rest, h => by
    unfold pathTail at h
    split at h
    · rename_i ha
      intro c hc
      rcases List.mem_cons.mp hc with hc | hc
      · subst hc; exact isAlnumLower_noColAt ha
      · exact pathTail_noColAt fuel rest h c hc
    · simp only at h
      have hsplit := List.takeWhile_append_dropWhile
        (p := fun c => !isAlnumLower c) (l := a :: rest)
      generalize hsep : (a :: rest).takeWhile (fun c => !isAlnumLower c) = sep at h hsplit
      generalize hafter : (a :: rest).dropWhile (fun c => !isAlnumLower c) = after at h hsplit
      simp only [Bool.and_eq_true, bne_iff_ne] at h
      obtain ⟨⟨hs, hne⟩, ht⟩ := h
      cases after with
      | nil => exact absurd rfl hne
      | cons x after' =>
        have hx : isAlnumLower x = true := by simpa using dropWhile_head_false _ hafter
        simp only [List.drop_succ_cons, List.drop_zero] at ht
        intro c hc
        rw [← hsplit] at hc
        rcases List.mem_append.mp hc with hc | hc
        · exact isSeparator_noColAt hs c hc
        · rcases List.mem_cons.mp hc with hc | hc
          · subst hc; exact isAlnumLower_noColAt hx
          · exact pathTail_noColAt fuel after' ht c hc

theorem isPathComponent_noColAt {s : Bytes} (h : isPathComponent s = true) :
    ∀ c ∈ s, NoColAt c := by
  cases s with
  | nil => simp
  | cons a rest =>
    simp only [isPathComponent, Bool.and_eq_true] at h
    intro c hc
    rcases List.mem_cons.mp hc with hc | hc
    · subst hc; exact isAlnumLower_noColAt h.1
    · exact pathTail_noColAt _ _ h.2 c hc

theorem isRepo_noColAt {p : Bytes} (h : isRepo p = true) : ∀ c ∈ p, c ≠ cColon ∧ c ≠ cAt := by
  intro c hc
  rcases mem_splitOn cSlash hc with hc | ⟨q, hq, hcq⟩
  · subst hc; exact ⟨by decide, by decide⟩
  · exact isPathComponent_noColAt (List.all_eq_true.mp h q hq) c hcq

/-! ### A valid tag contains no `@` -/

theorem isTag_no_at {t : Bytes} (h : isTag t = true) : ∀ c ∈ t, c ≠ cAt := by
  cases t with
  | nil => simp
  | cons a rest =>
    simp only [isTag, Bool.and_eq_true, List.all_eq_true, Bool.or_eq_true, beq_iff_eq] at h
    intro c hc
    rcases List.mem_cons.mp hc with hc | hc
    · subst hc; exact isWord_ne_at h.1.2
    · rcases h.2 c hc with (h' | h') | h'
      · exact isWord_ne_at h'
      · subst h'; decide
      · subst h'; decide

/-! ### A valid digest is non-empty and contains no newline -/

theorem encodedLen_some {alg : Bytes} {n : Nat} (h : encodedLen alg = some n) :
    alg = sha256 ∨ alg = sha384 ∨ alg = sha512 := by
  unfold encodedLen at h
  split at h
  · left; assumption
  · split at h
    · right; left; assumption
    · split at h
      · right; right; assumption
      · simp at h

theorem isDigest_ne_nil {d : Bytes} (h : isDigest d = true) : d ≠ [] := by
  rintro rfl; revert h; decide

theorem isDigest_no_nl {d : Bytes} (h : isDigest d = true) : ∀ c ∈ d, c ≠ cNL := by
  unfold isDigest at h
  simp only at h
  have hsplit := List.takeWhile_append_dropWhile (p := fun c => c != cColon) (l := d)
  generalize halg : d.takeWhile (fun c => c != cColon) = alg at h hsplit
  generalize hdrop : d.dropWhile (fun c => c != cColon) = dr at h hsplit
  cases dr with
  | nil => simp at h
  | cons x enc =>
    have hx : x = cColon := by simpa using dropWhile_head_false _ hdrop
    simp only at h
    cases hl : encodedLen alg with
    | none => simp [hl] at h
    | some n =>
      simp only [hl, Bool.and_eq_true, List.all_eq_true] at h
      have halg' : ∀ c ∈ alg, c ≠ cNL := by
        rcases encodedLen_some hl with e | e | e <;> subst e <;> decide
      intro c hc
      rw [← hsplit] at hc
      rcases List.mem_append.mp hc with hc | hc
      · exact halg' c hc
      · rcases List.mem_cons.mp hc with hc | hc
        · rw [hc, hx]; decide
        · exact isHexLower_ne_nl (h.2 c hc)

/-! ### Parsing a printed reference -/

theorem parseRest_print {p t d : Bytes} (hp : isRepo p = true)
    (ht : t = [] ∨ isTag t = true) (hd : d = [] ∨ isDigest d = true) :
    parseRest (p ++ (if t ≠ [] then cColon :: t else []) ++
      (if d ≠ [] then cAt :: d else [])) = some (p, t, d) := by
  have hpP : ∀ c ∈ p, (c != cColon && c != cAt) = true := by
    intro c hc
    have := isRepo_noColAt hp c hc
    simp [this.1, this.2]
  have hcol : (cColon != cColon && cColon != cAt) = false := by decide
  have hat : (cAt != cColon && cAt != cAt) = false := by decide
  have hdok : d ≠ [] → (d != [] && d.all (fun c => c != cNL)) = true := by
    intro hne
    rcases hd with hd | hd
    · exact absurd hd hne
    · simp only [Bool.and_eq_true, bne_iff_ne, List.all_eq_true]
      exact ⟨by simpa using hne, fun c hc => by simpa using isDigest_no_nl hd c hc⟩
  have htP : ∀ c ∈ t, (c != cAt) = true := by
    intro c hc
    rcases ht with ht | ht
    · subst ht; simp at hc
    · simpa using isTag_no_at ht c hc
  by_cases ht0 : t = [] <;> by_cases hd0 : d = []
  · subst ht0; subst hd0
    simp only [ne_eq, not_true_eq_false, if_false, List.append_nil]
    simp only [parseRest, takeWhile_all _ hpP, dropWhile_all _ hpP, hp]
    simp
  · subst ht0
    simp only [ne_eq, not_true_eq_false, if_false, List.append_nil, hd0, not_false_eq_true,
      if_true]
    simp only [parseRest, takeWhile_append_cons _ hpP hat, dropWhile_append_cons _ hpP hat, hp]
    simp [hdok hd0]
  · subst hd0
    simp only [ne_eq, not_true_eq_false, if_false, List.append_nil, ht0, not_false_eq_true,
      if_true]
    simp only [parseRest, takeWhile_append_cons _ hpP hcol, dropWhile_append_cons _ hpP hcol, hp,
      takeWhile_all _ htP, dropWhile_all _ htP]
    have : (cColon == cAt) = false := by decide
    simp [this, ht0]
  · simp only [ne_eq, ht0, hd0, not_false_eq_true, if_true, List.append_assoc,
      List.cons_append]
    have hat' : (cAt != cAt) = false := by decide
    simp only [parseRest, takeWhile_append_cons _ hpP hcol, dropWhile_append_cons _ hpP hcol, hp,
      takeWhile_append_cons _ htP hat', dropWhile_append_cons _ htP hat']
    have : (cColon == cAt) = false := by decide
    simp [this, ht0, hdok hd0]

theorem matchRef_host {h rest p t d : Bytes} (hh : isHost h = true)
    (hr : parseRest rest = some (p, t, d)) :
    matchRef (h ++ cSlash :: rest) = some ⟨h, p, t, d⟩ := by
  have hP : ∀ c ∈ h, (c != cSlash) = true := by
    intro c hc; simpa using isHost_no_slash hh c hc
  have hs : (cSlash != cSlash) = false := by decide
  simp only [matchRef, takeWhile_append_cons _ hP hs, dropWhile_append_cons _ hP hs, hh, hr]
  simp

theorem parseRelative_of_matchRef {s : Bytes} {r : Reference} (hm : matchRef s = some r)
    (hl : r.repo.length ≤ 255) (ht : r.tag = [] ∨ isTag r.tag = true)
    (hd : r.digest = [] ∨ isDigest r.digest = true) : parseRelative s = some r := by
  unfold parseRelative
  simp only [hm]
  have h3 : ¬ r.repo.length > 255 := by omega
  simp [h3]
  exact ⟨fun hn => hd.resolve_left hn, fun hn => ht.resolve_left hn⟩

theorem print_parse_aux (h p t d : Bytes) (hh : isHost h = true) (hp : isRepo p = true)
    (hl : p.length ≤ 255) (ht : t = [] ∨ isTag t = true) (hd : d = [] ∨ isDigest d = true) :
    parse (print ⟨h, p, t, d⟩) = some ⟨h, p, t, d⟩ := by
  have hne := isHost_ne_nil hh
  have hm := matchRef_host hh (parseRest_print hp ht hd)
  rw [← print_host hne] at hm
  have hpr := parseRelative_of_matchRef hm hl ht hd
  unfold parse
  simp [hpr, hne]

/-! ### The host-less round trip, under the condition that makes it true -/

theorem isWord_ne_slash {c : UInt8} (h : isWord c = true) : c ≠ cSlash := by
  rintro rfl; revert h; decide
theorem isHexLower_ne_slash {c : UInt8} (h : isHexLower c = true) : c ≠ cSlash := by
  rintro rfl; revert h; decide

theorem isTag_no_slash {t : Bytes} (h : isTag t = true) : ∀ c ∈ t, c ≠ cSlash := by
  cases t with
  | nil => simp
  | cons a rest =>
    simp only [isTag, Bool.and_eq_true, List.all_eq_true, Bool.or_eq_true, beq_iff_eq] at h
    intro c hc
    rcases List.mem_cons.mp hc with hc | hc
    · subst hc; exact isWord_ne_slash h.1.2
    · rcases h.2 c hc with (h' | h') | h'
      · exact isWord_ne_slash h'
      · subst h'; decide
      · subst h'; decide

theorem isDigest_no_slash {d : Bytes} (h : isDigest d = true) : ∀ c ∈ d, c ≠ cSlash := by
  unfold isDigest at h
  simp only at h
  have hsplit := List.takeWhile_append_dropWhile (p := fun c => c != cColon) (l := d)
  generalize halg : d.takeWhile (fun c => c != cColon) = alg at h hsplit
  generalize hdrop : d.dropWhile (fun c => c != cColon) = dr at h hsplit
  cases dr with
  | nil => simp at h
  | cons x enc =>
    have hx : x = cColon := by simpa using dropWhile_head_false _ hdrop
    simp only at h
    cases hl : encodedLen alg with
    | none => simp [hl] at h
    | some n =>
      simp only [hl, Bool.and_eq_true, List.all_eq_true] at h
      have halg' : ∀ c ∈ alg, c ≠ cSlash := by
        rcases encodedLen_some hl with e | e | e <;> subst e <;> decide
      intro c hc
      rw [← hsplit] at hc
      rcases List.mem_append.mp hc with hc | hc
      · exact halg' c hc
      · rcases List.mem_cons.mp hc with hc | hc
        · rw [hc, hx]; decide
        · exact isHexLower_ne_slash (h.2 c hc)

theorem matchRef_nohost {p t d : Bytes} (hp : isRepo p = true)
    (ht : t = [] ∨ isTag t = true) (hd : d = [] ∨ isDigest d = true)
    (hno : isHost (p.takeWhile (fun c => c != cSlash)) = false) :
    matchRef (print ⟨[], p, t, d⟩) = some ⟨[], p, t, d⟩ := by
  rw [print_nohost, List.append_assoc]
  have hpr := parseRest_print hp ht hd
  rw [List.append_assoc] at hpr
  generalize hT : (if t ≠ [] then cColon :: t else []) ++ (if d ≠ [] then cAt :: d else []) = T
    at hpr
  have hTs : ∀ c ∈ T, (c != cSlash) = true := by
    intro c hc
    rw [← hT] at hc
    simp only [bne_iff_ne]
    rcases List.mem_append.mp hc with hc | hc
    · by_cases ht0 : t = []
      · simp [ht0] at hc
      · simp only [ne_eq, ht0, not_false_eq_true, if_true] at hc
        rcases List.mem_cons.mp hc with hc | hc
        · subst hc; decide
        · exact isTag_no_slash (ht.resolve_left ht0) c hc
    · by_cases hd0 : d = []
      · simp [hd0] at hc
      · simp only [ne_eq, hd0, not_false_eq_true, if_true] at hc
        rcases List.mem_cons.mp hc with hc | hc
        · subst hc; decide
        · exact isDigest_no_slash (hd.resolve_left hd0) c hc
  have hsplit := List.takeWhile_append_dropWhile (p := fun c => c != cSlash) (l := p)
  have ha : ∀ c ∈ p.takeWhile (fun c => c != cSlash), (c != cSlash) = true :=
    fun c hc => mem_takeWhile_true (fun c => c != cSlash) hc
  generalize p.takeWhile (fun c => c != cSlash) = a at hno hsplit ha
  generalize hdrop : p.dropWhile (fun c => c != cSlash) = dr at hsplit
  cases dr with
  | nil =>
    have hall : ∀ c ∈ p ++ T, (c != cSlash) = true := by
      intro c hc
      rcases List.mem_append.mp hc with hc | hc
      · rw [← hsplit] at hc; exact ha c (by simpa using hc)
      · exact hTs c hc
    simp only [matchRef, dropWhile_all _ hall, hpr]
    simp
  | cons x b =>
    have hx : x = cSlash := by simpa using dropWhile_head_false _ hdrop
    have hs : (cSlash != cSlash) = false := by decide
    have e : p ++ T = a ++ cSlash :: (b ++ T) := by rw [← hsplit, hx]; simp
    have ht1 : (p ++ T).takeWhile (fun c => c != cSlash) = a := by
      rw [e]; exact takeWhile_append_cons _ ha hs
    have hd1 : (p ++ T).dropWhile (fun c => c != cSlash) = cSlash :: (b ++ T) := by
      rw [e]; exact dropWhile_append_cons _ ha hs
    simp only [matchRef, ht1, hd1, hno, hpr]
    simp

theorem print_parseRelative_nohost_aux (p t d : Bytes) (hp : isRepo p = true)
    (hl : p.length ≤ 255) (ht : t = [] ∨ isTag t = true) (hd : d = [] ∨ isDigest d = true)
    (hno : isHost (p.takeWhile (fun c => c != cSlash)) = false) :
    parseRelative (print ⟨[], p, t, d⟩) = some ⟨[], p, t, d⟩ :=
  parseRelative_of_matchRef (matchRef_nohost hp ht hd hno) hl ht hd

end OciModel.Ref
