/-
Helper lemmas for the chunked-upload model (`OciModel/Upload.lean`): the
Content-Range codec is exact on what the writer sends, the writer/server
invariant, the explicit result of `flush`, `write`, `step` under the invariant,
and the bookkeeping for the backend log.
-/
import OciModel.Upload

namespace OciModel.Upload
open OciModel.ReqCodec

/-- equality of outcomes is decidable (for the concrete scripts evaluated by `decide`) -/
instance exceptDecEq {ε α : Type} [DecidableEq ε] [DecidableEq α] : DecidableEq (Except ε α)
  | .ok a, .ok b => if h : a = b then isTrue (by rw [h]) else isFalse (fun e => h (Except.ok.inj e))
  | .error a, .error b =>
    if h : a = b then isTrue (by rw [h]) else isFalse (fun e => h (Except.error.inj e))
  | .ok _, .error _ => isFalse (fun e => nomatch e)
  | .error _, .ok _ => isFalse (fun e => nomatch e)

/-! ### Codec -/

theorem chunkRange_exact {s n : Int} (hs : 0 ≤ s) (hn : 0 ≤ n) :
    chunkRange (some (rangeString s (s + n))) n = some (s, s + n) := by
  unfold chunkRange parseRange rangeString
  simp only
  repeat' split
  all_goals first | omega | (simp only [Option.some.injEq, Prod.mk.injEq]; omega) | skip
  all_goals simp_all <;> omega

theorem askedOffset_eq {n : Nat} (h : n ≠ 1) : askedOffset n = n := by
  unfold askedOffset parseRange rangeString
  simp only
  repeat' split
  all_goals omega

theorem chunkRange_nat (f k : Nat) :
    chunkRange (some (rangeString (f : Int) ((f : Int) + (k : Int)))) (k : Int)
      = some ((f : Int), (f : Int) + (k : Int)) :=
  chunkRange_exact (Int.natCast_nonneg f) (Int.natCast_nonneg k)

/-! ### Invariant -/

/-- the server holds exactly what the writer believes it has flushed, and no sticky error -/
def Inv (w : CW) (sv : Srv) : Prop := sv.buf.length = w.flushed ∧ sv.poisoned = false

instance (w : CW) (sv : Srv) : Decidable (Inv w sv) := by unfold Inv; infer_instance

/-- `Size()` is the number of bytes written so far -/
def SizeOK (w : CW) (sv : Srv) : Prop := w.size = sv.buf.length + w.chunk.length

/-- number of bytes the registry has received once the pending chunk is flushed -/
def received (w : CW) (sv : Srv) : Nat := sv.buf.length + w.chunk.length

/-- the state after a successful flush of `w.chunk ++ extra` -/
def flushedW (w : CW) (extra : Bytes) : CW :=
  { w with flushed := w.flushed + (w.chunk ++ extra).length, chunk := [] }

def flushedS (w : CW) (sv : Srv) (extra : Bytes) : Srv :=
  { sv with buf := sv.buf ++ w.chunk ++ extra }

def flushLog (w : CW) (extra : Bytes) : List BOp :=
  [BOp.resume w.flushed] ++ (if w.chunk ++ extra ≠ [] then [BOp.write (w.chunk ++ extra).length] else [])

theorem inv_flushed {w : CW} {sv : Srv} (h : Inv w sv) (extra : Bytes) :
    Inv (flushedW w extra) (flushedS w sv extra) := by
  obtain ⟨h1, h2⟩ := h
  refine ⟨?_, h2⟩
  simp [flushedW, flushedS, List.length_append]
  omega

/-- server side: a chunk labelled with the offset the server is at is appended -/
theorem serverChunk_none_ok (H : Bytes → Bytes) (sv : Srv) (f : Nat) (body : Bytes)
    (hf : sv.buf.length = f) :
    serverChunk H sv (rangeString (f : Int) ((f : Int) + (body.length : Int))) body none
      = .ok ({ sv with buf := sv.buf ++ body },
             [BOp.resume f] ++ (if body ≠ [] then [BOp.write body.length] else [])) := by
  unfold serverChunk
  rw [chunkRange_nat]
  simp [hf]

theorem flush_none_nonempty (H : Bytes → Bytes) {w : CW} {sv : Srv} (h : Inv w sv) (extra : Bytes)
    (hne : w.chunk ++ extra ≠ []) :
    flush H w sv extra none = .ok (flushedW w extra, flushedS w sv extra, flushLog w extra) := by
  unfold flush
  simp only [Option.isNone_none, true_and, hne, if_false]
  rw [serverChunk_none_ok H sv w.flushed (w.chunk ++ extra) h.1]
  simp [flushedW, flushedS, flushLog, hne]

theorem flush_none_empty (H : Bytes → Bytes) (w : CW) (sv : Srv) (extra : Bytes)
    (he : w.chunk ++ extra = []) :
    flush H w sv extra none = .ok (w, sv, []) := by
  unfold flush
  simp [he]

/-- the outcome of a flush under the invariant, in one statement: a new state
satisfying the invariant whose server buffer has gained exactly `w.chunk ++ extra`. -/
theorem flush_none_spec (H : Bytes → Bytes) {w : CW} {sv : Srv} (h : Inv w sv) (extra : Bytes) :
    ∃ w' sv' log, flush H w sv extra none = .ok (w', sv', log) ∧ Inv w' sv' ∧
      w'.chunk = [] ∧ w'.size = w.size ∧ w'.chunkSize = w.chunkSize ∧
      sv'.buf = sv.buf ++ w.chunk ++ extra := by
  by_cases he : w.chunk ++ extra = []
  · refine ⟨w, sv, [], flush_none_empty H w sv extra he, h, ?_, rfl, rfl, ?_⟩
    · exact (List.append_eq_nil_iff.mp he).1
    · rw [List.append_assoc, he, List.append_nil]
  · exact ⟨_, _, _, flush_none_nonempty H h extra he, inv_flushed h extra, rfl, rfl, rfl, rfl⟩

/-! ### Admissible scripts -/

/-- `AdmFrom n ops`: with `n` bytes written so far, no `closeResumeAsk` of the
script happens when exactly one byte has been written. -/
def AdmFrom : Nat → List Op → Prop
  | _, [] => True
  | n, .write d :: rest => AdmFrom (n + d.length) rest
  | n, .closeResumeExplicit :: rest => AdmFrom n rest
  | n, .closeResumeAsk :: rest => n ≠ 1 ∧ AdmFrom n rest

instance : (n : Nat) → (ops : List Op) → Decidable (AdmFrom n ops)
  | _, [] => isTrue trivial
  | n, .write d :: rest => by unfold AdmFrom; exact instDecidableAdmFrom (n + d.length) rest
  | n, .closeResumeExplicit :: rest => by unfold AdmFrom; exact instDecidableAdmFrom n rest
  | n, .closeResumeAsk :: rest => by
      unfold AdmFrom
      exact @instDecidableAnd _ _ _ (instDecidableAdmFrom n rest)

/-- the exclusion of the property, from an arbitrary state -/
def Admissible (w : CW) (sv : Srv) (ops : List Op) : Prop := AdmFrom (received w sv) ops

instance (w : CW) (sv : Srv) (ops : List Op) : Decidable (Admissible w sv ops) := by
  unfold Admissible; infer_instance

/-! ### One step -/

/-- the full invariant carried along a run -/
def Good (w : CW) (sv : Srv) : Prop := Inv w sv ∧ SizeOK w sv

theorem good_start (c : Nat) : Good (start c) ⟨[], false⟩ := by
  simp [Good, Inv, SizeOK, start]

theorem write_spec (H : Bytes → Bytes) {w : CW} {sv : Srv} (h : Good w sv) (data : Bytes) :
    ∃ w' sv' log, write H w sv data = .ok (w', sv', log) ∧ Good w' sv' ∧
      w'.chunkSize = w.chunkSize ∧ sv'.buf ++ w'.chunk = sv.buf ++ w.chunk ++ data := by
  obtain ⟨hi, hs⟩ := h
  unfold write
  split
  · obtain ⟨w1, sv1, log, hf, hi1, hc1, hs1, hk1, hb1⟩ := flush_none_spec H hi data
    refine ⟨{ w1 with size := w1.size + data.length }, sv1, log, by rw [hf], ⟨hi1, ?_⟩, hk1, ?_⟩
    · simp only [SizeOK] at hs ⊢
      simp [hc1, hs1, hb1, hs, List.length_append]; omega
    · simp [hc1, hb1]
  · refine ⟨_, sv, [], rfl, ⟨hi, ?_⟩, rfl, ?_⟩
    · simp only [SizeOK] at hs ⊢
      simp [hs, List.length_append]; omega
    · simp

theorem step_spec (H : Bytes → Bytes) {w : CW} {sv : Srv} (h : Good w sv) (op : Op)
    (hadm : op = .closeResumeAsk → received w sv ≠ 1) :
    ∃ w' sv' log, step H w sv op = .ok (w', sv', log) ∧ Good w' sv' ∧
      w'.chunkSize = w.chunkSize ∧
      sv'.buf ++ w'.chunk = sv.buf ++ w.chunk ++ written [op] := by
  cases op with
  | write data =>
    simpa [step, written] using write_spec H h data
  | closeResumeExplicit =>
    obtain ⟨hi, hs⟩ := h
    obtain ⟨w1, sv1, log, hf, hi1, hc1, hs1, hk1, hb1⟩ := flush_none_spec H hi []
    refine ⟨{ w1 with size := w1.size, flushed := w1.size, chunk := [] }, sv1, log, ?_, ⟨⟨?_, hi1.2⟩, ?_⟩, hk1, ?_⟩
    · simp [step, hf]
    · simp only [SizeOK] at hs
      simp [hs1, hs, hb1, List.length_append]
    · simp only [SizeOK] at hs ⊢
      simp [hs1, hs, hb1, List.length_append]
    · simp [hb1, written]
  | closeResumeAsk =>
    obtain ⟨hi, hs⟩ := h
    obtain ⟨w1, sv1, log, hf, hi1, hc1, hs1, hk1, hb1⟩ := flush_none_spec H hi []
    have hlen : sv1.buf.length = received w sv := by
      simp [received, hb1, List.length_append]
    have hoff : (askedOffset sv1.buf.length).toNat = sv1.buf.length := by
      rw [askedOffset_eq (by rw [hlen]; exact hadm rfl)]
      exact Int.toNat_natCast _
    refine ⟨{ w1 with size := (askedOffset sv1.buf.length).toNat,
                      flushed := (askedOffset sv1.buf.length).toNat, chunk := [] },
      sv1, log ++ [BOp.resume (-1)], ?_, ⟨⟨?_, hi1.2⟩, ?_⟩, hk1, ?_⟩
    · simp only [step, hf]
    · simp [hoff]
    · simp [SizeOK, hoff]
    · simp [hb1, written]

theorem written_cons (op : Op) (rest : List Op) : written (op :: rest) = written [op] ++ written rest := by
  cases op <;> simp [written]

theorem written_length_single_write (d : Bytes) : written [.write d] = d := by simp [written]

theorem admFrom_cons {n : Nat} {op : Op} {rest : List Op} (h : AdmFrom n (op :: rest)) :
    (op = .closeResumeAsk → n ≠ 1) ∧ AdmFrom (n + (written [op]).length) rest := by
  cases op with
  | write d => simpa [AdmFrom, written] using h
  | closeResumeExplicit => simpa [AdmFrom, written] using h
  | closeResumeAsk => simpa [AdmFrom, written] using h

theorem admFrom_cons_iff (n : Nat) (op : Op) (rest : List Op) :
    AdmFrom n (op :: rest) ↔
      (op = .closeResumeAsk → n ≠ 1) ∧ AdmFrom (n + (written [op]).length) rest := by
  cases op <;> simp [AdmFrom, written]

/-- `AdmFrom` in words: the number of bytes written before each `closeResumeAsk` is not 1. -/
theorem admFrom_iff (ops : List Op) : ∀ n, AdmFrom n ops ↔
    ∀ pre post, ops = pre ++ Op.closeResumeAsk :: post → n + (written pre).length ≠ 1 := by
  induction ops with
  | nil => intro n; simp [AdmFrom]
  | cons op rest ih =>
    intro n
    rw [admFrom_cons_iff, ih]
    constructor
    · rintro ⟨h1, h2⟩ pre post heq
      cases pre with
      | nil =>
        simp only [List.nil_append, List.cons.injEq] at heq
        simpa [written] using h1 heq.1
      | cons p pre' =>
        simp only [List.cons_append, List.cons.injEq] at heq
        obtain ⟨rfl, hrest⟩ := heq
        have := h2 pre' post hrest
        rw [written_cons op pre', List.length_append]; omega
    · intro h
      refine ⟨?_, ?_⟩
      · rintro rfl
        simpa [written] using h [] rest rfl
      · intro pre post heq
        have := h (op :: pre) post (by rw [heq]; rfl)
        rw [written_cons op pre, List.length_append] at this; omega

/-! ### Runs -/

theorem run_spec (H : Bytes → Bytes) (ops : List Op) :
    ∀ {w : CW} {sv : Srv}, Good w sv → Admissible w sv ops →
    ∃ w' sv' log, run H w sv ops = .ok (w', sv', log) ∧ Good w' sv' ∧
      w'.chunkSize = w.chunkSize ∧
      sv'.buf ++ w'.chunk = sv.buf ++ w.chunk ++ written ops := by
  induction ops with
  | nil => intro w sv h _; exact ⟨w, sv, [], rfl, h, rfl, by simp [written]⟩
  | cons op rest ih =>
    intro w sv h hadm
    obtain ⟨ha1, ha2⟩ := admFrom_cons hadm
    obtain ⟨w1, sv1, log1, hst, hg1, hk1, hb1⟩ := step_spec H h op ha1
    have hrec : received w1 sv1 = received w sv + (written [op]).length := by
      have := congrArg List.length hb1
      simp only [List.length_append] at this
      simp only [received]; omega
    have hadm1 : Admissible w1 sv1 rest := by
      unfold Admissible; rw [hrec]; exact ha2
    obtain ⟨w2, sv2, log2, hr, hg2, hk2, hb2⟩ := ih hg1 hadm1
    refine ⟨w2, sv2, log1 ++ log2, ?_, hg2, hk2.trans hk1, ?_⟩
    · simp only [run, hst, hr]
    · rw [hb2, hb1, written_cons op rest]; simp

/-! ### Commit -/

theorem commit_spec (H : Bytes → Bytes) {w : CW} {sv : Srv} (h : Inv w sv) (d : Bytes) :
    commit H w sv d =
      if H (sv.buf ++ w.chunk) = d then
        .ok ({ sv with buf := sv.buf ++ w.chunk }, flushLog w [] ++ [BOp.commit])
      else .error .digestInvalid := by
  obtain ⟨h1, h2⟩ := h
  unfold commit flush serverChunk
  simp only [List.append_nil]
  rw [chunkRange_nat]
  by_cases hd : H (sv.buf ++ w.chunk) = d <;> simp [h1, h2, hd, flushLog]

/-! ### Refusals -/

theorem serverChunk_wrong_offset (H : Bytes → Bytes) (sv : Srv) (hdr : Int × Int) (body : Bytes)
    (c : Option Bytes) {st e : Int} (hb : body ≠ [])
    (hr : chunkRange (some hdr) body.length = some (st, e)) (hne : (sv.buf.length : Int) ≠ st) :
    serverChunk H sv hdr body c = .error .rangeInvalid := by
  unfold serverChunk
  simp [hr, hb, hne]

theorem flush_wrong_offset (H : Bytes → Bytes) (w : CW) (sv : Srv) (extra : Bytes) (c : Option Bytes)
    (hne : w.chunk ++ extra ≠ []) (hoff : sv.buf.length ≠ w.flushed) :
    flush H w sv extra c = .error .rangeInvalid := by
  unfold flush
  simp only [hne, and_false, if_false]
  rw [serverChunk_wrong_offset H sv _ (w.chunk ++ extra) c hne
    (by simpa [Int.natCast_add] using chunkRange_nat w.flushed (w.chunk ++ extra).length)
    (by omega)]

/-! ### The backend log -/

/-- bytes handed to the buffer by a log -/
def logBytes : List BOp → Nat
  | [] => 0
  | .write k :: rest => k + logBytes rest
  | _ :: rest => logBytes rest

/-- `LogExact n log`: starting with `n` bytes in the buffer, every `Resume(o)` with a
definite offset (`o ≥ 0`) names exactly the number of bytes the buffer holds at that point. -/
def LogExact : Nat → List BOp → Prop
  | _, [] => True
  | n, .resume o :: rest => (0 ≤ o → o = (n : Int)) ∧ LogExact n rest
  | n, .write k :: rest => LogExact (n + k) rest
  | n, .commit :: rest => LogExact n rest

theorem logBytes_append (l1 l2 : List BOp) : logBytes (l1 ++ l2) = logBytes l1 + logBytes l2 := by
  induction l1 with
  | nil => simp [logBytes]
  | cons a l ih => cases a <;> simp [logBytes, ih] <;> omega

theorem logExact_append (l1 l2 : List BOp) : ∀ n,
    LogExact n (l1 ++ l2) ↔ LogExact n l1 ∧ LogExact (n + logBytes l1) l2 := by
  induction l1 with
  | nil => intro n; simp [LogExact, logBytes]
  | cons a l ih =>
    intro n
    cases a with
    | resume o => simp [LogExact, logBytes, ih, and_assoc]
    | write k => simp [LogExact, logBytes, ih, Nat.add_assoc]
    | commit => simp [LogExact, logBytes, ih]

/-- log of one flush under the invariant -/
theorem flush_none_log (H : Bytes → Bytes) {w : CW} {sv : Srv} (h : Inv w sv) (extra : Bytes)
    {w' : CW} {sv' : Srv} {log : List BOp} (hf : flush H w sv extra none = .ok (w', sv', log)) :
    LogExact sv.buf.length log ∧ sv'.buf.length = sv.buf.length + logBytes log := by
  by_cases he : w.chunk ++ extra = []
  · rw [flush_none_empty H w sv extra he] at hf
    simp only [Except.ok.injEq, Prod.mk.injEq] at hf
    obtain ⟨-, rfl, rfl⟩ := hf
    simp [LogExact, logBytes]
  · rw [flush_none_nonempty H h extra he] at hf
    simp only [Except.ok.injEq, Prod.mk.injEq] at hf
    obtain ⟨-, rfl, rfl⟩ := hf
    simp [flushLog, he, LogExact, logBytes, flushedS, h.1, List.length_append]

theorem step_log (H : Bytes → Bytes) {w : CW} {sv : Srv} (h : Inv w sv) (op : Op)
    {w' : CW} {sv' : Srv} {log : List BOp} (hs : step H w sv op = .ok (w', sv', log)) :
    LogExact sv.buf.length log ∧ sv'.buf.length = sv.buf.length + logBytes log := by
  cases op with
  | write data =>
    simp only [step, write] at hs
    split at hs
    · split at hs
      · cases hs
      · rename_i w1 sv1 log1 hf
        simp only [Except.ok.injEq, Prod.mk.injEq] at hs
        obtain ⟨-, rfl, rfl⟩ := hs
        exact flush_none_log H h data hf
    · simp only [Except.ok.injEq, Prod.mk.injEq] at hs
      obtain ⟨-, rfl, rfl⟩ := hs
      simp [LogExact, logBytes]
  | closeResumeExplicit =>
    simp only [step] at hs
    split at hs
    · cases hs
    · rename_i w1 sv1 log1 hf
      simp only [Except.ok.injEq, Prod.mk.injEq] at hs
      obtain ⟨-, rfl, rfl⟩ := hs
      exact flush_none_log H h [] hf
  | closeResumeAsk =>
    simp only [step] at hs
    split at hs
    · cases hs
    · rename_i w1 sv1 log1 hf
      simp only [Except.ok.injEq, Prod.mk.injEq] at hs
      obtain ⟨-, rfl, rfl⟩ := hs
      obtain ⟨h1, h2⟩ := flush_none_log H h [] hf
      refine ⟨?_, ?_⟩
      · rw [logExact_append]; exact ⟨h1, by simp [LogExact]⟩
      · rw [logBytes_append]; simp [logBytes, h2]

theorem run_log (H : Bytes → Bytes) (ops : List Op) :
    ∀ {w : CW} {sv : Srv}, Good w sv → Admissible w sv ops →
    ∀ {w' : CW} {sv' : Srv} {log : List BOp}, run H w sv ops = .ok (w', sv', log) →
      LogExact sv.buf.length log ∧ sv'.buf.length = sv.buf.length + logBytes log := by
  induction ops with
  | nil =>
    intro w sv _ _ w' sv' log hr
    simp only [run, Except.ok.injEq, Prod.mk.injEq] at hr
    obtain ⟨-, rfl, rfl⟩ := hr
    simp [LogExact, logBytes]
  | cons op rest ih =>
    intro w sv h hadm w' sv' log hr
    obtain ⟨ha1, ha2⟩ := admFrom_cons hadm
    obtain ⟨w1, sv1, log1, hst, hg1, -, hb1⟩ := step_spec H h op ha1
    have hrec : received w1 sv1 = received w sv + (written [op]).length := by
      have := congrArg List.length hb1
      simp only [List.length_append] at this
      simp only [received]; omega
    have hadm1 : Admissible w1 sv1 rest := by
      unfold Admissible; rw [hrec]; exact ha2
    obtain ⟨w2, sv2, log2, hr2, -, -, -⟩ := run_spec H rest hg1 hadm1
    simp only [run, hst, hr2, Except.ok.injEq, Prod.mk.injEq] at hr
    obtain ⟨-, rfl, rfl⟩ := hr
    obtain ⟨e1, l1⟩ := step_log H h.1 op hst
    obtain ⟨e2, l2⟩ := ih hg1 hadm1 hr2
    refine ⟨?_, ?_⟩
    · rw [logExact_append, ← l1]; exact ⟨e1, e2⟩
    · rw [logBytes_append, l2, l1]; omega

end OciModel.Upload
