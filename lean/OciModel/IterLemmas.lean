/-
Helper lemmas for `OciModel.Iter` (the statements of property C05D are in
`OciModel/Props/C05D.lean`).
-/
import OciModel.Iter

namespace OciModel.Iter

variable {σ α ε : Type}

/-! ### feeding an instrumented consumer -/

theorem feed_traced (cb : Cons σ α ε) (evs : List (Ev α ε)) (s : σ) (tr : Trace α ε) :
    feed (traced cb) evs (s, tr) = (feed cb evs s, tr ++ delivered cb evs s) := by
  induction evs generalizing s tr with
  | nil => simp [feed, delivered]
  | cons e es ih =>
    cases h : (cb s e).2 with
    | false => simp [feed, delivered, traced, h]
    | true => simp [feed, delivered, traced, h, ih]

theorem sliceLoop_eq_feed (cb : Cons σ α ε) (xs : List α) (s : σ) :
    sliceLoop cb xs s = feed cb (itemEvents xs) s := by
  induction xs generalizing s with
  | nil => simp [sliceLoop, feed, itemEvents]
  | cons x xs ih =>
    cases h : (cb s ⟨x, none⟩).2 with
    | false => simp [sliceLoop, feed, itemEvents, h]
    | true =>
      have := ih (cb s ⟨x, none⟩).1
      simp [itemEvents] at this
      simp [sliceLoop, feed, itemEvents, h, this]

theorem delegate_cb_eq (cb : Cons σ α ε) :
    (fun s ev => if !(cb s ev).2 then ((cb s ev).1, false) else ((cb s ev).1, true)) = cb := by
  funext s ev
  cases h : (cb s ev).2 <;> simp <;> (rw [← h])

theorem ev_eta_none (e : Ev α ε) (h : e.err = none) : (⟨e.item, none⟩ : Ev α ε) = e := by
  cases e; simp_all

/-- Feeding the debug wrapper's callback the events `evs` is feeding the consumer `cut zero evs`. -/
theorem feed_logCb (zero : α) (cb : Cons σ α ε) (evs : List (Ev α ε)) (st : LogSt σ α ε) :
    (feed (logCb zero cb) evs st).s = feed cb (cut zero evs) st.s := by
  induction evs generalizing st with
  | nil => simp [feed, cut]
  | cons e es ih =>
    cases he : e.err with
    | some x =>
      simp [feed, cut, logCb, he]
    | none =>
      have hz := ev_eta_none e he
      cases h : (cb st.s e).2 with
      | false => simp [feed, cut, logCb, he, hz, h]
      | true => simp [feed, cut, logCb, he, hz, h, ih]

theorem logIter_eq_ofEvents (zero : α) (evs : List (Ev α ε)) (cb : Cons σ α ε) (s : σ) :
    logIter zero (ofEvents evs) σ cb s = ofEvents (cut zero evs) σ cb s := by
  simp [logIter, logIterRun, ofEvents, feed_logCb]

/-! ### discipline of a trace -/

/-- Every call but the last was answered `true` and carried no error. -/
def Disciplined : Trace α ε → Prop
  | [] => True
  | [_] => True
  | x :: y :: rest => x.2 = true ∧ x.1.err = none ∧ Disciplined (y :: rest)

/-- Every call but the last was answered `true`. -/
def DeclineLast : Trace α ε → Prop
  | [] => True
  | [_] => True
  | x :: y :: rest => x.2 = true ∧ DeclineLast (y :: rest)

/-- No event follows an error event. -/
def ErrLast : List (Ev α ε) → Prop
  | [] => True
  | [_] => True
  | e :: e' :: es => e.err = none ∧ ErrLast (e' :: es)

theorem disciplined_index {tr : Trace α ε} (h : Disciplined tr) :
    ∀ i x, tr[i]? = some x → i + 1 < tr.length → x.2 = true ∧ x.1.err = none := by
  induction tr with
  | nil => intro i x hx; simp at hx
  | cons a rest ih =>
    intro i x hx hlen
    cases rest with
    | nil => simp at hlen
    | cons b rest' =>
      obtain ⟨h1, h2, h3⟩ := h
      cases i with
      | zero => simp at hx; subst hx; exact ⟨h1, h2⟩
      | succ j =>
        simp at hx
        exact ih h3 j x (by simpa using hx) (by simp at hlen ⊢; omega)

theorem declineLast_index {tr : Trace α ε} (h : DeclineLast tr) :
    ∀ i x, tr[i]? = some x → i + 1 < tr.length → x.2 = true := by
  induction tr with
  | nil => intro i x hx; simp at hx
  | cons a rest ih =>
    intro i x hx hlen
    cases rest with
    | nil => simp at hlen
    | cons b rest' =>
      obtain ⟨h1, h3⟩ := h
      cases i with
      | zero => simp at hx; subst hx; exact h1
      | succ j =>
        simp at hx
        exact ih h3 j x (by simpa using hx) (by simp at hlen ⊢; omega)

theorem delivered_nil_of_nil (cb : Cons σ α ε) (s : σ) : delivered cb [] s = [] := rfl

theorem delivered_declineLast (cb : Cons σ α ε) (evs : List (Ev α ε)) (s : σ) :
    DeclineLast (delivered cb evs s) := by
  induction evs generalizing s with
  | nil => simp [delivered, DeclineLast]
  | cons e es ih =>
    cases h : (cb s e).2 with
    | false => simp [delivered, h, DeclineLast]
    | true =>
      have := ih (cb s e).1
      simp only [delivered, h, if_true]
      cases hd : delivered cb es (cb s e).1 with
      | nil => simp [DeclineLast]
      | cons y rest => rw [hd] at this; exact ⟨rfl, this⟩

theorem delivered_disciplined (cb : Cons σ α ε) (evs : List (Ev α ε)) (s : σ) (hl : ErrLast evs) :
    Disciplined (delivered cb evs s) := by
  induction evs generalizing s with
  | nil => simp [delivered, Disciplined]
  | cons e es ih =>
    cases h : (cb s e).2 with
    | false => simp [delivered, h, Disciplined]
    | true =>
      simp only [delivered, h, if_true]
      cases es with
      | nil => simp [delivered, Disciplined]
      | cons e' es' =>
        obtain ⟨h1, h2⟩ := hl
        have := ih (cb s e).1 h2
        cases hd : delivered cb (e' :: es') (cb s e).1 with
        | nil => simp [Disciplined]
        | cons y rest => rw [hd] at this; exact ⟨rfl, h1, this⟩

theorem errLast_cut (zero : α) (evs : List (Ev α ε)) : ErrLast (cut zero evs) := by
  induction evs with
  | nil => simp [cut, ErrLast]
  | cons e es ih =>
    cases he : e.err with
    | some x => simp [cut, he, ErrLast]
    | none =>
      simp only [cut, he]
      cases hc : cut zero es with
      | nil => simp [ErrLast]
      | cons y rest => rw [hc] at ih; exact ⟨he, ih⟩

theorem errLast_itemEvents (xs : List α) : ErrLast (itemEvents xs : List (Ev α ε)) := by
  induction xs with
  | nil => simp [itemEvents, ErrLast]
  | cons x xs ih =>
    cases xs with
    | nil => simp [itemEvents, ErrLast]
    | cons y ys => exact ⟨rfl, ih⟩

/-- On a list that already follows the convention, `cut` changes nothing as soon as error events
carry the zero item. -/
theorem cut_idem (zero : α) (evs : List (Ev α ε)) : cut zero (cut zero evs) = cut zero evs := by
  induction evs with
  | nil => simp [cut]
  | cons e es ih =>
    cases he : e.err with
    | some x => simp [cut, he]
    | none => simp [cut, he, ih]

/-! ### `All` -/

/-- items of the events before the first error event -/
def itemsBefore : List (Ev α ε) → List α
  | [] => []
  | e :: es => match e.err with
    | some _ => []
    | none => e.item :: itemsBefore es

/-- the first error of an event list -/
def firstErr : List (Ev α ε) → Option ε
  | [] => none
  | e :: es => match e.err with
    | some x => some x
    | none => firstErr es

theorem feed_allCb (evs : List (Ev α ε)) (xs : List α) (err : Option ε) :
    feed allCb evs (xs, err) = (xs ++ itemsBefore evs, (firstErr evs).orElse fun _ => err) := by
  induction evs generalizing xs with
  | nil => simp [feed, itemsBefore, firstErr]
  | cons e es ih =>
    cases he : e.err with
    | some x => simp [feed, allCb, he, itemsBefore, firstErr]
    | none => simp [feed, allCb, he, itemsBefore, firstErr, ih]

theorem itemsBefore_cut (zero : α) (evs : List (Ev α ε)) : itemsBefore (cut zero evs) = itemsBefore evs := by
  induction evs with
  | nil => simp [cut]
  | cons e es ih =>
    cases he : e.err with
    | some x => simp [cut, he, itemsBefore]
    | none => simp [cut, he, itemsBefore, ih]

theorem firstErr_cut (zero : α) (evs : List (Ev α ε)) : firstErr (cut zero evs) = firstErr evs := by
  induction evs with
  | nil => simp [cut]
  | cons e es ih =>
    cases he : e.err with
    | some x => simp [cut, he, firstErr]
    | none => simp [cut, he, firstErr, ih]

theorem itemsBefore_itemEvents (xs : List α) : itemsBefore (itemEvents xs : List (Ev α ε)) = xs := by
  induction xs with
  | nil => simp [itemEvents, itemsBefore]
  | cons x xs ih =>
    have : itemsBefore (List.map (fun x => ({ item := x, err := none } : Ev α ε)) xs) = xs := by
      simpa [itemEvents] using ih
    simp [itemEvents, itemsBefore, this]

theorem firstErr_itemEvents (xs : List α) : firstErr (itemEvents xs : List (Ev α ε)) = none := by
  induction xs with
  | nil => simp [itemEvents, firstErr]
  | cons x xs ih =>
    have : firstErr (List.map (fun x => ({ item := x, err := none } : Ev α ε)) xs) = none := by
      simpa [itemEvents] using ih
    simp [itemEvents, firstErr, this]

end OciModel.Iter
