/-
Model of the iterator protocol of `ociregistry` (iter.go: `Seq`, `All`, `SliceSeq`,
`ErrorSeq`) and of the `ocidebug` wrapper (debug.go: the 18 logging methods, the
`blobWriter` they hand out, and `logIterReturn`, the iterator of the three listing
methods).

A Go `Seq[T]` is `func(yield func(T, error) bool)`: a function that pushes events
`(item, err)` into a consumer until it is done or (if it is well behaved) the
consumer answers `false`. Here a consumer is a pure step function
`σ → Ev → σ × Bool` over its own state, and a sequence is a function from a
consumer and its initial state to its final state, for *every* state type
(`Seq`): that is what lets a wrapper run the sequence it wraps with a consumer of
its own, as `logIterReturn` and `All` do.

The sequences that come out of a registry are modelled as event lists pushed by
the loop `for _, e := range evs { if !yield(e) { return } }` (`ofEvents`).

Each definition mirrors the Go text quoted above it; the translator checks on
every run that the text is still the one quoted (`OciModel.Generated.Debug`).
Core Lean only (this file is linked into the `ocimodel` driver).
-/
import OciModel.Base
import OciModel.Generated.Debug

namespace OciModel.Iter

/-- One call of `yield(item, err)`; `err = none` is Go's nil error. -/
structure Ev (α ε : Type) where
  item : α
  err  : Option ε
  deriving DecidableEq, Repr

/-- A consumer (`yield` closed over state `σ`): new state and the answer
(`true` = go on). -/
abbrev Cons (σ α ε : Type) := σ → Ev α ε → σ × Bool

/-- `ociregistry.Seq[T]`. -/
abbrev Seq (α ε : Type) := (σ : Type) → Cons σ α ε → σ → σ

/-- `for _, e := range evs { if !yield(e.item, e.err) { return } }` -/
def feed {σ α ε : Type} (cb : Cons σ α ε) : List (Ev α ε) → σ → σ
  | [], s => s
  | e :: es, s => if (cb s e).2 then feed cb es (cb s e).1 else (cb s e).1

/-- A well-behaved source of the given events (what a backend's listing method returns). -/
def ofEvents {α ε : Type} (evs : List (Ev α ε)) : Seq α ε := fun _ cb s => feed cb evs s

/-! ### iter.go -/

/-- the loop of `SliceSeq`: `for _, x := range xs { if !yield(x, nil) { return } }` -/
def sliceLoop {σ α ε : Type} (cb : Cons σ α ε) : List α → σ → σ
  | [], s => s
  | x :: xs, s => if !(cb s ⟨x, none⟩).2 then (cb s ⟨x, none⟩).1 else sliceLoop cb xs (cb s ⟨x, none⟩).1

/-- `func SliceSeq[T any](xs []T) Seq[T]` -/
def sliceSeq {α ε : Type} (xs : List α) : Seq α ε := fun _ cb s => sliceLoop cb xs s

/-- `func ErrorSeq[T any](err error) Seq[T] { return func(yield …) { yield(*new(T), err) } }`
(`zero` is `*new(T)`; the error may be nil, and yield's answer is ignored). -/
def errorSeq {α ε : Type} (zero : α) (err : Option ε) : Seq α ε := fun _ cb s => (cb s ⟨zero, err⟩).1

/-- the callback of `All`:
`func(x T, err error) bool { if err != nil { _err = err; return false }; xs = append(xs, x); return true }` -/
def allCb {α ε : Type} : Cons (List α × Option ε) α ε := fun st ev =>
  match ev.err with
  | some e => ((st.1, some e), false)
  | none => ((st.1 ++ [ev.item], st.2), true)

/-- `func All[T any](it Seq[T]) (_ []T, _err error)` -/
def all {α ε : Type} (it : Seq α ε) : List α × Option ε := it _ allCb ([], none)

/-! ### delegating iterators -/

/-- `for x, err := range it { if !yield(x, err) { return } }`: the loop body the compiler
hands to `it` answers `false` exactly when the body returns. -/
def delegate {α ε : Type} (it : Seq α ε) : Seq α ε := fun _ cb s =>
  it _ (fun s ev => if !(cb s ev).2 then ((cb s ev).1, false) else ((cb s ev).1, true)) s

/-- State of one run of the function `logIterReturn` returns: the consumer's state
and the two locals `items`, `_err` (declared inside the returned function, so fresh
on every iteration). -/
structure LogSt (σ α ε : Type) where
  s     : σ
  items : List α
  err   : Option ε

/-- The callback `logIterReturn` passes to the wrapped sequence:
```
func(item T, err error) bool {
    if err != nil { yield(*new(T), err); _err = err; return false }
    ok := yield(item, err)
    if ok { items = append(items, item) }
    return ok
}
``` -/
def logCb {σ α ε : Type} (zero : α) (cb : Cons σ α ε) : Cons (LogSt σ α ε) α ε := fun st ev =>
  match ev.err with
  | some e => ({ s := (cb st.s ⟨zero, some e⟩).1, items := st.items, err := some e }, false)
  | none =>
    ({ s := (cb st.s ⟨ev.item, none⟩).1,
       items := if (cb st.s ⟨ev.item, none⟩).2 then st.items ++ [ev.item] else st.items,
       err := st.err },
     (cb st.s ⟨ev.item, none⟩).2)

/-- One run of the returned function, with its locals (what the closing log line prints). -/
def logIterRun {σ α ε : Type} (zero : α) (it : Seq α ε) (cb : Cons σ α ε) (s : σ) : LogSt σ α ε :=
  it _ (logCb zero cb) ⟨s, [], none⟩

/-- `logIterReturn(r, msg, it)` as a sequence (log calls have no effect on the consumer). -/
def logIter {α ε : Type} (zero : α) (it : Seq α ε) : Seq α ε := fun _ cb s => (logIterRun zero it cb s).s

/-- The iterator of the debug wrapper's listing methods, by the shape the translator
found in debug.go; `none` when the shape is not one of the modelled ones. -/
def wrapIter {α ε : Type} (kind : String) (zero : α) (it : Seq α ε) : Option (Seq α ε) :=
  if kind == "logcb" then some (logIter zero it)
  else if kind == "range" then some (delegate it)
  else none

def debugIter {α ε : Type} (zero : α) (it : Seq α ε) : Option (Seq α ε) :=
  wrapIter Generated.Debug.iterKind zero it

/-! ### Traces: what a consumer sees -/

/-- The calls made on a consumer, in order, each with the consumer's answer. -/
abbrev Trace (α ε : Type) := List (Ev α ε × Bool)

/-- A consumer instrumented to record its calls. -/
def traced {σ α ε : Type} (cb : Cons σ α ε) : Cons (σ × Trace α ε) α ε := fun st ev =>
  (((cb st.1 ev).1, st.2 ++ [(ev, (cb st.1 ev).2)]), (cb st.1 ev).2)

/-- The trace of consumer calls when `it` is run with `cb` from state `s`. -/
def trace {σ α ε : Type} (it : Seq α ε) (cb : Cons σ α ε) (s : σ) : Trace α ε :=
  (it _ (traced cb) (s, [])).2

/-- Specification: the trace of a disciplined delivery of `evs`: every event in order,
up to and including the first one the consumer declines. -/
def delivered {σ α ε : Type} (cb : Cons σ α ε) : List (Ev α ε) → σ → Trace α ε
  | [], _ => []
  | e :: es, s => (e, (cb s e).2) :: (if (cb s e).2 then delivered cb es (cb s e).1 else [])

/-- What the debug iterator lets through of an event list: everything up to and
including the first error event, whose item is replaced by the zero value. -/
def cut {α ε : Type} (zero : α) : List (Ev α ε) → List (Ev α ε)
  | [] => []
  | e :: es =>
    match e.err with
    | some x => [⟨zero, some x⟩]
    | none => e :: cut zero es

/-- `ociregistry.Seq`'s documented convention: "a non-nil error means that the item is
the last in the sequence" (and it carries the zero item). -/
def WellFormed {α ε : Type} [DecidableEq α] [DecidableEq ε] (zero : α) (evs : List (Ev α ε)) : Bool :=
  cut zero evs == evs

def itemEvents {α ε : Type} (xs : List α) : List (Ev α ε) := xs.map fun x => ⟨x, none⟩

/-- A consumer that counts its calls and declines at the `k`-th (`k = 0`: never). It
keeps answering `true` after an error event: stopping there is the iterator's duty. -/
def declineAt {α ε : Type} (k : Nat) : Cons Nat α ε := fun n _ => (n + 1, n + 1 != k)

/-! ### Iterator values that are iterated more than once

A Go iterator value is a closure: `κ` stands for the variables it captures, and one
iteration may change them (a single-shot iterator flips a flag). -/

structure Closure (κ α ε : Type) where
  run : (σ : Type) → κ → Cons σ α ε → σ → κ × σ

/-- the sequence the closure is when its captured variables have value `k` -/
def Closure.seqAt {κ α ε : Type} (c : Closure κ α ε) (k : κ) : Seq α ε := fun σ cb s => (c.run σ k cb s).2

/-- Traces of two successive iterations of the same value, each with a fresh copy of the consumer. -/
def Closure.twice {κ σ α ε : Type} (c : Closure κ α ε) (k : κ) (cb : Cons σ α ε) (s : σ) : Trace α ε × Trace α ε :=
  let r1 := c.run _ k (traced cb) (s, [])
  let r2 := c.run _ r1.1 (traced cb) (s, [])
  (r1.2.2, r2.2.2)

/-- `SliceSeq(xs)`: captures `xs`, never assigns it. -/
def sliceClosure {α ε : Type} : Closure (List α) α ε := ⟨fun σ xs cb s => (xs, sliceSeq xs σ cb s)⟩

/-- `ErrorSeq[T](err)`: captures `err`, never assigns it. -/
def errorClosure {α ε : Type} (zero : α) : Closure (Option ε) α ε := ⟨fun σ e cb s => (e, errorSeq zero e σ cb s)⟩

/-- A backend iterator whose `n`-th iteration (counting from 0) produces the events `f n`. -/
def countingSource {α ε : Type} (f : Nat → List (Ev α ε)) : Closure Nat α ε :=
  ⟨fun _ n cb s => (n + 1, feed cb (f n) s)⟩

/-- `logIterReturn(r, msg, it)` over a closure: it captures `r`, `msg` and `it` and assigns none
of them; its locals are per run. -/
def logClosure {κ α ε : Type} (zero : α) (c : Closure κ α ε) : Closure κ α ε :=
  ⟨fun _ k cb s => ((c.run _ k (logCb zero cb) ⟨s, [], none⟩).1, (c.run _ k (logCb zero cb) ⟨s, [], none⟩).2.s)⟩

/-- a delegating `for … range it` loop over a closure -/
def delegateClosure {κ α ε : Type} (c : Closure κ α ε) : Closure κ α ε :=
  ⟨fun _ k cb s => c.run _ k (fun s ev => if !(cb s ev).2 then ((cb s ev).1, false) else ((cb s ev).1, true)) s⟩

/-- the debug wrapper's iterator value, by the generated shape -/
def wrapClosure {κ α ε : Type} (kind : String) (zero : α) (c : Closure κ α ε) : Option (Closure κ α ε) :=
  if kind == "logcb" then some (logClosure zero c)
  else if kind == "range" then some (delegateClosure c)
  else none

/-! ### The logging methods (generated table rows) -/

/-- A call made on the wrapped value. -/
structure Call (V : Type) where
  recv   : String
  method : String
  ctx    : Bool          -- the caller's ctx was passed first
  args   : List V
  deriving DecidableEq, Repr

/-- What the wrapped call returned: `none` = nil / the zero value, nil error. -/
structure Res (V E : Type) where
  val : Option V
  err : Option E
  deriving DecidableEq, Repr

/-- The value result of a wrapper method in terms of the wrapped call's. -/
inductive WVal (V : Type) where
  | absent                          -- the method has no value result
  | same (v : Option V)             -- this value, as is (`none` = nil)
  | writer (inner : Option V)       -- `blobWriter{w: inner}`: a non-nil writer delegating to `inner`
  | iter                            -- `logIterReturn(…, result)`
  deriving DecidableEq, Repr

structure Out (V E : Type) where
  calls : List (Call V)
  val   : WVal V
  err   : Option (Option E)      -- `none`: the method has no error result; `some none`: a nil error
  deriving DecidableEq, Repr

open Generated.Debug in
/-- Semantics of one generated row: log calls (no effect), the one delegation, the optional
early-return guard, the final return. `none`: the row does not have the modelled shape. -/
def call {V E : Type} (backend : Call V → Res V E) (env : String → V) (r : Row) : Option (Out V E) :=
  if !r.shapeKnown || r.ncalls != 1 then none
  else
    let c : Call V := ⟨r.recv, r.callee, r.ctxFirst, r.callArgs.map env⟩
    let res := backend c
    let early : Bool := (r.guard == "err" && res.err.isSome) || (r.guard == "nil" && res.val.isNone)
    let errName := if r.retVal == "" then "res0" else "res1"
    let val? : Option (WVal V) :=
      if r.retVal == "" then some .absent
      else if r.retVal == "res0" then (if r.guard == "" then some (.same res.val) else none)
      else if r.retVal == "writer(res0)" then
        (if r.guard == "" || r.guard == "err" || r.guard == "nil" then
          some (if early then .same none else .writer res.val)
         else none)
      else if r.retVal == "logIter(call)" then (if r.guard == "" then some .iter else none)
      else none
    let err? : Option (Option (Option E)) :=
      if r.retErr == "" then some none
      else if r.retErr == errName then some (some res.err)
      else if r.retErr == "nil" then some (some (if early then res.err else none))
      else none
    match val?, err? with
    | some v, some e => some ⟨[c], v, e⟩
    | _, _ => none

open Generated.Debug in
/-- Decidable well-formedness of a row of the table of methods on `recv`: one call, of its own
method, with its own parameters in order (and ctx first for registry methods); results handed back as
they are, a writer wrapped only when there is one to wrap, a listing wrapped in the logging iterator. -/
def RowOk (recv : String) (r : Row) : Bool :=
  r.shapeKnown && r.recv == recv && r.ncalls == 1 && r.callee == r.method && r.callArgs == r.params &&
  (r.ctxFirst == (recv == "r.r")) &&
  ((r.retVal == "" && r.guard == "" && r.retErr == "res0") ||
   (r.retVal == "res0" && r.guard == "" && (r.retErr == "" || r.retErr == "res1")) ||
   (r.retVal == "logIter(call)" && r.guard == "" && r.retErr == "") ||
   (r.retVal == "writer(res0)" &&
     ((r.guard == "err" && (r.retErr == "res1" || r.retErr == "nil")) || (r.guard == "nil" && r.retErr == "res1"))))

open Generated.Debug in
def TableOk (recv : String) (t : List Row) : Bool := t.all (RowOk recv)

/-- The result is the wrapped call's result: the same error (when the method has an error result:
the translator leaves `retErr` empty only for methods without one); the same value, or a writer around
it when there is one; a value is withheld only together with an error. -/
def Transparent {V E : Type} (c : Call V) (res : Res V E) (o : Out V E) : Prop :=
  o.calls = [c] ∧ (o.err = none ∨ o.err = some res.err) ∧
  match o.val with
  | .absent => True
  | .iter => True
  | .same v => v = res.val ∨ (v = none ∧ res.err.isSome = true)
  | .writer v => v = res.val ∧ (v.isSome = true ∨ res.err.isNone = true)

end OciModel.Iter
