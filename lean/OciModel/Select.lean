/-
Model of `ocifilter.AccessChecker` / `ocifilter.Select` (ocifilter/select.go).

The *generated* table (`OciModel.Generated.Select.table`: per method the ordered
guards `r.check(arg, kind)` that precede the delegation, the delegated method and
its arguments) is the model; this file gives a row its semantics over an
arbitrary policy `check : Bytes → Kind → Option ε` (`none` = allowed) and an
arbitrary backend `Call → ρ`. All argument values are byte strings (`Env` maps a
parameter name to its value); the model never looks inside them.

Iterators (`ociregistry.Seq`) are finite lists of events pushed into a consumer
`σ → Ev → σ × Bool` until it answers `false` (`feed`).
-/
import OciModel.Base
import OciModel.Generated.Select
import OciModel.Generated.Iface

namespace OciModel.Select
open OciModel.Generated.Select OciModel.Generated

inductive Kind where
  | read | write | delete | list
  deriving DecidableEq, Repr

def kindOf : String → Option Kind
  | "AccessRead" => some .read
  | "AccessWrite" => some .write
  | "AccessDelete" => some .delete
  | "AccessList" => some .list
  | _ => none

/-- A policy: `none` = allowed, `some e` = rejected with error `e`. -/
abbrev Policy (ε : Type) := Bytes → Kind → Option ε

structure Call where
  method : String
  args   : List Bytes
  deriving DecidableEq, Repr

abbrev Env := String → Bytes

/-- A guard with its access kind resolved. -/
structure RGuard where
  arg  : String
  lit  : Bool
  kind : Kind
  deriving DecidableEq, Repr

def RGuard.val (env : Env) (g : RGuard) : Bytes := if g.lit then strBytes g.arg else env g.arg

/-- Guards of a row whose kinds are known constants and whose guarded return
passes the error on; `none` when any guard is not of that shape. -/
def resolve : List Guard → Option (List RGuard)
  | [] => some []
  | g :: gs =>
    match kindOf g.kind, resolve gs with
    | some k, some rs => if g.retOk then some (⟨g.arg, g.lit, k⟩ :: rs) else none
    | _, _ => none

/-- The error of the first guard the policy rejects. -/
def firstFail {ε} (check : Policy ε) (env : Env) : List RGuard → Option ε
  | [] => none
  | g :: gs =>
    match check (g.val env) g.kind with
    | some e => some e
    | none => firstFail check env gs

inductive Res (ε ρ : Type) where
  | rejected (e : ε)        -- the policy's error, returned as is
  | returned (r : ρ)        -- the backend's result, returned as is
  | stuck                   -- the source no longer has the modelled shape
  deriving DecidableEq, Repr

structure Out (ε ρ : Type) where
  res   : Res ε ρ
  calls : List Call         -- calls made on the wrapped registry, in order
  deriving DecidableEq, Repr

/-- A non-iterator method of the wrapper: guards, then one delegation. -/
def call {ε ρ} (check : Policy ε) (backend : Call → ρ) (env : Env) (r : Row) : Out ε ρ :=
  if !r.shapeKnown || r.shape != "direct" then ⟨.stuck, []⟩
  else
    match resolve r.guards with
    | none => ⟨.stuck, []⟩
    | some gs =>
      match firstFail check env gs with
      | some e => ⟨.rejected e, []⟩
      | none =>
        let c : Call := ⟨r.callee, r.callArgs.map env⟩
        ⟨.returned (backend c), [c]⟩

/-! ### Iterators -/

inductive Ev (ε : Type) where
  | item (n : Bytes)
  | error (e : ε)
  deriving DecidableEq, Repr

/-- Push events into a consumer until it declines; returns the consumer's final
state and how many events were delivered. -/
def feed {ε σ} (cb : σ → Ev ε → σ × Bool) : List (Ev ε) → σ → σ × Nat
  | [], s => (s, 0)
  | e :: es, s =>
    let (s', go) := cb s e
    if go then
      let (s'', n) := feed cb es s'
      (s'', n + 1)
    else (s', 1)

/-- The callback the wrapper hands to the backend's iterator:
`if err != nil { yield("", err); return false }; if check(repo, k) != nil { return true }; return yield(repo, nil)`. -/
def filterCb {ε σ} (check : Policy ε) (k : Kind) (cb : σ → Ev ε → σ × Bool) : σ → Ev ε → σ × Bool
  | s, .error e => ((cb s (.error e)).1, false)
  | s, .item n =>
    match check n k with
    | some _ => (s, true)
    | none => cb s (.item n)

/-- What a consumer of the filtered iterator can see of a backend listing: the
items the policy allows, up to and including the first error. -/
def visible {ε} (check : Policy ε) (k : Kind) : List (Ev ε) → List (Ev ε)
  | [] => []
  | .error e :: _ => [.error e]
  | .item n :: es =>
    match check n k with
    | some _ => visible check k es
    | none => .item n :: visible check k es

/-- The `Repositories` method (shape "filter"): `none` when the row does not
have the modelled shape; otherwise the consumer's final state, the backend calls
and the number of backend events pulled. -/
def repositories {ε σ} (check : Policy ε) (backend : Call → List (Ev ε)) (env : Env) (r : Row)
    (cb : σ → Ev ε → σ × Bool) (s : σ) : Option (σ × List Call × Nat) :=
  if !r.shapeKnown || r.shape != "filter" then none
  else
    match resolve r.guards, kindOf r.filterKind with
    | some gs, some fk =>
      match firstFail check env gs with
      | some e => some ((cb s (.error e)).1, [], 0)        -- ErrorSeq(err): one error event
      | none =>
        let c : Call := ⟨r.callee, r.callArgs.map env⟩
        let (s', n) := feed (filterCb check fk cb) (backend c) s
        some (s', [c], n)
    | _, _ => none

/-- A consumer that records what it is given and declines on the `k`-th event
(`k = 0`: never declines). -/
def collectCb {ε} (k : Nat) : List (Ev ε) → Ev ε → List (Ev ε) × Bool :=
  fun acc e => (acc ++ [e], k == 0 || acc.length + 1 < k)

/-! ### Specification: which guards a method must have -/

def isRepoParam (p : String) : Bool := p == "repo" || p == "fromRepo" || p == "toRepo"

/-- Reader methods need read access, Writer write, Deleter delete, Lister list. -/
def groupKind (m : String) : Option Kind :=
  if Iface.readerMethods.contains m then some .read
  else if Iface.writerMethods.contains m then some .write
  else if Iface.deleterMethods.contains m then some .delete
  else if Iface.listerMethods.contains m then some .list
  else none

/-- The guards the property demands of method `m`, whose parameters are named
`ips` in `ociregistry.Interface` and `ps` in the wrapper: every repository
parameter, in order, with the method's kind (the source of a mount is read);
`Repositories` is guarded by the literal "*". -/
def specGuards (m : String) (ips ps : List String) : Option (List RGuard) :=
  match groupKind m with
  | none => none
  | some k =>
    if m == "Repositories" then some [⟨"*", true, .list⟩]
    else some (((ips.zip ps).filter fun x => isRepoParam x.1).map fun x =>
      ⟨x.2, false, if m == "MountBlob" && x.1 == "fromRepo" then .read else k⟩)

def ifaceParamNames (m : String) : Option (List String) :=
  (Iface.methodParams.lookup m).map fun ps => ps.map (·.1)

/-- Decidable well-formedness of a row: it delegates to its own method with its
own parameters in order, and its guards are exactly the specified ones. -/
def RowOk (r : Row) : Bool :=
  r.shapeKnown && r.callee == r.method && r.callArgs == r.params &&
  (match ifaceParamNames r.method with
   | none => false
   | some ips =>
     ips.length == r.params.length && (resolve r.guards).isSome &&
     resolve r.guards == specGuards r.method ips r.params) &&
  (if r.method == "Repositories" then r.shape == "filter" && r.filterKind == "AccessRead"
   else r.shape == "direct")

def TableOk (t : List Row) : Bool := t.all RowOk

/-! ### The policy built by `Select` -/

def evalCond (allow : Bytes → Bool) (name : Bytes) (k : Kind) : String → Option Bool
  | "allow(repoName)" => some (allow name)
  | "access == AccessWrite" => some (k == .write)
  | "access == AccessList && repoName == \"*\"" => some (k == .list && name == [42])
  | "true" => some true
  | _ => none

def evalResult : String → Option (Option String)
  | "nil" => some none
  | "ociregistry.ErrDenied" => some (some "DENIED")
  | "ociregistry.ErrNameUnknown" => some (some "NAME_UNKNOWN")
  | _ => none

/-- First rule whose condition holds; the outer `none` = a rule is not understood. -/
def evalRules (allow : Bytes → Bool) (name : Bytes) (k : Kind) : List (String × String) → Option (Option String)
  | [] => none
  | (c, r) :: rest =>
    match evalCond allow name k c with
    | none => none
    | some true => evalResult r
    | some false => evalRules allow name k rest

/-- The policy `Select(r, allow)` passes to `AccessChecker`, read off the
generated decision list; errors are OCI codes. -/
def selectPolicy (allow : Bytes → Bool) : Policy String :=
  fun name k => (evalRules allow name k selectRules).getD (some "STUCK")

end OciModel.Select
