/-
Helper lemmas for C13's `sub_equals_restriction` / `sub_frame` (definitions in `SubMem.lean`).
-/
import OciModel.SubMem
import OciModel.SubLemmas
import OciModel.MemLemmas
import OciModel.RefLemmas

namespace OciModel.SubMem
open OciModel OciModel.Mem OciModel.Sub

/-! ### Names -/

theorem splitOn_append_sep (sep : UInt8) (a b : Bytes) :
    Ref.splitOn sep (a ++ sep :: b) = Ref.splitOn sep a ++ Ref.splitOn sep b := by
  induction a with
  | nil => simp [Ref.splitOn]
  | cons x a ih =>
    by_cases hx : x = sep
    · simp [Ref.splitOn, hx, ih]
    · have hne := Ref.splitOn_ne_nil sep a
      simp only [List.cons_append, Ref.splitOn, hx, if_false, ih]
      cases hs : Ref.splitOn sep a with
      | nil => exact absurd hs hne
      | cons q qs => simp

/-- `p/n` is a valid repository name iff both `p` and `n` are (no length limit in `ocimem`). -/
theorem isRepo_mapName (p n : Bytes) : Ref.isRepo (mapName p n) = (Ref.isRepo p && Ref.isRepo n) := by
  have : mapName p n = p ++ Ref.cSlash :: n := rfl
  rw [this, Ref.isRepo, splitOn_append_sep, List.all_append]
  rfl

theorem stripName_ne_of_none {p k : Bytes} (h : stripName p k = none) (n : Bytes) : k ≠ mapName p n := by
  intro e; rw [e, stripName_mapName] at h; cases h

/-! ### Restriction of the repository map -/

theorem restrictRepos_cons_some {p k n : Bytes} (h : stripName p k = some n) (v : Repo) (m : List (Bytes × Repo)) :
    restrictRepos p ((k, v) :: m) = (n, v) :: restrictRepos p m := by
  simp [restrictRepos, h]

theorem restrictRepos_cons_none {p k : Bytes} (h : stripName p k = none) (v : Repo) (m : List (Bytes × Repo)) :
    restrictRepos p ((k, v) :: m) = restrictRepos p m := by
  simp [restrictRepos, h]

theorem alookup_restrictRepos (p n : Bytes) (m : List (Bytes × Repo)) :
    alookup n (restrictRepos p m) = alookup (mapName p n) m := by
  induction m with
  | nil => rfl
  | cons kv m ih =>
    obtain ⟨k, v⟩ := kv
    cases h : stripName p k with
    | none =>
      rw [restrictRepos_cons_none h, ih, alookup_cons, if_neg (stripName_ne_of_none h n)]
    | some n' =>
      have hk : k = mapName p n' := (stripName_eq_some p k n').mp h
      rw [restrictRepos_cons_some h, alookup_cons, alookup_cons, ih]
      by_cases e : n' = n
      · simp [e, hk]
      · have : k ≠ mapName p n := by
          rw [hk]; intro e'; exact e (mapName_injective p _ _ e')
        simp [e, this]

theorem restrictRepos_aerase (p n : Bytes) (m : List (Bytes × Repo)) :
    restrictRepos p (aerase (mapName p n) m) = aerase n (restrictRepos p m) := by
  induction m with
  | nil => rfl
  | cons kv m ih =>
    obtain ⟨k, v⟩ := kv
    cases h : stripName p k with
    | none =>
      rw [aerase_cons, if_neg (stripName_ne_of_none h n), restrictRepos_cons_none h, restrictRepos_cons_none h, ih]
    | some n' =>
      have hk : k = mapName p n' := (stripName_eq_some p k n').mp h
      rw [aerase_cons, restrictRepos_cons_some h, aerase_cons]
      by_cases e : n' = n
      · subst e; simp [hk, ih]
      · have : k ≠ mapName p n := by
          rw [hk]; intro e'; exact e (mapName_injective p _ _ e')
        rw [if_neg this, if_neg e, restrictRepos_cons_some h, ih]

theorem restrictRepos_ainsert (p n : Bytes) (v : Repo) (m : List (Bytes × Repo)) :
    restrictRepos p (ainsert (mapName p n) v m) = ainsert n v (restrictRepos p m) := by
  unfold ainsert
  rw [restrictRepos_cons_some (stripName_mapName p n), restrictRepos_aerase]

theorem outsideRepos_aerase (p n : Bytes) (m : List (Bytes × Repo)) :
    outsideRepos p (aerase (mapName p n) m) = outsideRepos p m := by
  induction m with
  | nil => rfl
  | cons kv m ih =>
    obtain ⟨k, v⟩ := kv
    rw [aerase_cons]
    by_cases e : k = mapName p n
    · rw [if_pos e, ih]
      simp [outsideRepos, e, stripName_mapName]
    · rw [if_neg e]
      simp only [outsideRepos, List.filter_cons] at ih ⊢
      rw [ih]

theorem outsideRepos_ainsert (p n : Bytes) (v : Repo) (m : List (Bytes × Repo)) :
    outsideRepos p (ainsert (mapName p n) v m) = outsideRepos p m := by
  unfold ainsert
  have : outsideRepos p ((mapName p n, v) :: aerase (mapName p n) m) = outsideRepos p (aerase (mapName p n) m) := by
    simp [outsideRepos, stripName_mapName]
  rw [this, outsideRepos_aerase]

theorem alookup_outsideRepos {p k : Bytes} (h : stripName p k = none) (m : List (Bytes × Repo)) :
    alookup k (outsideRepos p m) = alookup k m := by
  induction m with
  | nil => rfl
  | cons kv m ih =>
    obtain ⟨k', v⟩ := kv
    by_cases e : k' = k
    · subst e; simp [outsideRepos, h, alookup_cons]
    · cases h' : stripName p k' with
      | none =>
        have : outsideRepos p ((k', v) :: m) = (k', v) :: outsideRepos p m := by simp [outsideRepos, h']
        rw [this, alookup_cons, alookup_cons, if_neg e, if_neg e, ih]
      | some n' =>
        have : outsideRepos p ((k', v) :: m) = outsideRepos p m := by simp [outsideRepos, h']
        rw [this, alookup_cons, if_neg e, ih]

/-! ### State accessors -/

@[simp] theorem restrict_immutableTags (p : Bytes) (s : State) : (restrict p s).immutableTags = s.immutableTags := rfl
@[simp] theorem restrict_nextID (p : Bytes) (s : State) : (restrict p s).nextID = s.nextID := rfl
@[simp] theorem restrict_repos (p : Bytes) (s : State) : (restrict p s).repos = restrictRepos p s.repos := rfl

theorem restrict_setNextID (p : Bytes) (s : State) (k : Nat) :
    restrict p { s with nextID := k } = { restrict p s with nextID := k } := rfl

@[simp] theorem getRepo_restrict (p n : Bytes) (s : State) : getRepo (restrict p s) n = getRepo s (mapName p n) :=
  alookup_restrictRepos p n s.repos

theorem restrict_putRepo (p n : Bytes) (s : State) (rp : Repo) :
    restrict p (putRepo s (mapName p n) rp) = putRepo (restrict p s) n rp := by
  simp [restrict, putRepo, restrictRepos_ainsert]

theorem restrict_putBuffer (p n : Bytes) (s : State) (rp : Repo) (id : Bytes) (b : Buffer) :
    restrict p (putBuffer s (mapName p n) rp id b) = putBuffer (restrict p s) n rp id b := by
  simp [putBuffer, restrict_putRepo]

@[simp] theorem blobFor_restrict (p n d : Bytes) (s : State) : blobFor (restrict p s) n d = blobFor s (mapName p n) d := by
  simp [blobFor]

@[simp] theorem manifestFor_restrict (p n d : Bytes) (s : State) :
    manifestFor (restrict p s) n d = manifestFor s (mapName p n) d := by
  simp [manifestFor]

@[simp] theorem getBuffer_restrict (p n id : Bytes) (s : State) :
    getBuffer (restrict p s) n id = getBuffer s (mapName p n) id := by
  simp [getBuffer]

theorem makeRepo_restrict {p : Bytes} (hp : Ref.isRepo p = true) (n : Bytes) (s : State) :
    makeRepo (restrict p s) n = (makeRepo s (mapName p n)).map fun x => (restrict p x.1, x.2) := by
  simp only [makeRepo, isRepo_mapName, hp, Bool.true_and, getRepo_restrict]
  cases Ref.isRepo n
  · simp
  · cases getRepo s (mapName p n) <;> simp [restrict_putRepo]

/-! ### The frame -/

/-- The repositories of `s` that are not under `p/`. -/
def outside (p : Bytes) (s : State) : List (Bytes × Repo) := outsideRepos p s.repos

theorem outside_putRepo (p n : Bytes) (s : State) (rp : Repo) : outside p (putRepo s (mapName p n) rp) = outside p s := by
  simp [outside, putRepo, outsideRepos_ainsert]

theorem outside_putBuffer (p n : Bytes) (s : State) (rp : Repo) (id : Bytes) (b : Buffer) :
    outside p (putBuffer s (mapName p n) rp id b) = outside p s := by
  simp [putBuffer, outside_putRepo]

theorem outside_setNextID (p : Bytes) (s : State) (k : Nat) : outside p { s with nextID := k } = outside p s := rfl

theorem outside_makeRepo {p n : Bytes} {s s1 : State} {rp : Repo} (h : makeRepo s (mapName p n) = some (s1, rp)) :
    outside p s1 = outside p s := by
  unfold makeRepo at h
  split at h
  · cases h
  · split at h
    · cases h; rfl
    · cases h; exact outside_putRepo p n s _

theorem getRepo_of_outside {p k : Bytes} (h : stripName p k = none) {s s' : State} (ho : outside p s' = outside p s) :
    getRepo s' k = getRepo s k := by
  unfold getRepo
  rw [← alookup_outsideRepos h s'.repos, ← alookup_outsideRepos h s.repos]
  exact congrArg _ ho

/-! ### Repository listings -/

/-- Ascending, possibly with repeats. -/
def AscB (l : List Bytes) : Prop := l.Pairwise (fun a b => compare a b ≠ .gt)

theorem asc_insertSorted {k : Bytes} {l : List Bytes} (hl : AscB l) : AscB (insertSorted k l) := by
  induction l with
  | nil => simp [insertSorted, AscB]
  | cons y ys ih =>
    unfold AscB at hl
    rw [List.pairwise_cons] at hl
    unfold insertSorted
    split
    · rename_i hgt
      have hgt' : compare k y = .gt := by simpa using hgt
      have hyk : compare y k = .lt := Std.OrientedCmp.gt_iff_lt.mp hgt'
      unfold AscB
      rw [List.pairwise_cons]
      refine ⟨?_, ih hl.2⟩
      intro a ha
      rcases mem_insertSorted.mp ha with ha | ha
      · subst ha; rw [hyk]; simp
      · exact hl.1 a ha
    · rename_i hgt
      have hne : compare k y ≠ .gt := by simpa using hgt
      unfold AscB
      rw [List.pairwise_cons]
      refine ⟨?_, List.pairwise_cons.mpr hl⟩
      intro a ha
      rcases List.mem_cons.mp ha with ha | ha
      · subst ha; exact hne
      · exact cmp_le_trans hne (hl.1 a ha)

theorem asc_sortBytes (l : List Bytes) : AscB (sortBytes l) := by
  induction l with
  | nil => simp [sortBytes, AscB]
  | cons y ys ih => exact asc_insertSorted ih

theorem insertSorted_of_le {n : Bytes} {l : List Bytes} (h : ∀ x ∈ l, compare n x ≠ .gt) :
    insertSorted n l = n :: l := by
  cases l with
  | nil => rfl
  | cons x xs =>
    have := h x List.mem_cons_self
    simp [insertSorted, this]

theorem filterMap_insertSorted (p k : Bytes) {l : List Bytes} (hl : AscB l) :
    (insertSorted k l).filterMap (stripName p) =
      match stripName p k with
      | some n => insertSorted n (l.filterMap (stripName p))
      | none => l.filterMap (stripName p) := by
  induction l with
  | nil => cases h : stripName p k <;> simp [insertSorted, h]
  | cons x xs ih =>
    unfold AscB at hl
    rw [List.pairwise_cons] at hl
    have ih := ih hl.2
    by_cases hgt : compare k x = .gt
    · have e : insertSorted k (x :: xs) = x :: insertSorted k xs := by simp [insertSorted, hgt]
      rw [e, List.filterMap_cons, ih]
      cases hk : stripName p k with
      | none => simp [List.filterMap_cons]
      | some n =>
        cases hx : stripName p x with
        | none => simp [hx]
        | some m =>
          have hgt' : compare n m = .gt := by
            rw [(stripName_eq_some p k n).mp hk, (stripName_eq_some p x m).mp hx, compare_mapName] at hgt
            exact hgt
          simp [hx, insertSorted, hgt']
    · have e : insertSorted k (x :: xs) = k :: x :: xs := by simp [insertSorted, hgt]
      rw [e, List.filterMap_cons]
      cases hk : stripName p k with
      | none => rfl
      | some n =>
        simp only []
        rw [insertSorted_of_le]
        intro m hm
        obtain ⟨y, hy, hym⟩ := List.mem_filterMap.mp hm
        have hky : compare k y ≠ .gt := by
          rcases List.mem_cons.mp hy with hy | hy
          · subst hy; exact hgt
          · exact cmp_le_trans hgt (hl.1 y hy)
        rw [(stripName_eq_some p k n).mp hk, (stripName_eq_some p y m).mp hym, compare_mapName] at hky
        exact hky

theorem filterMap_sortBytes (p : Bytes) (l : List Bytes) :
    (sortBytes l).filterMap (stripName p) = sortBytes (l.filterMap (stripName p)) := by
  induction l with
  | nil => rfl
  | cons k ks ih =>
    have e : sortBytes (k :: ks) = insertSorted k (sortBytes ks) := rfl
    rw [e, filterMap_insertSorted p k (asc_sortBytes ks), ih, List.filterMap_cons]
    cases stripName p k <;> rfl

theorem filter_filterMap_strip (p start : Bytes) (l : List Bytes) :
    (l.filter fun k => compare (mapName p start) k == .lt).filterMap (stripName p) =
      (l.filterMap (stripName p)).filter fun n => compare start n == .lt := by
  induction l with
  | nil => rfl
  | cons k ks ih =>
    cases hk : stripName p k with
    | none =>
      rw [List.filterMap_cons, hk, ← ih, List.filter_cons]
      split
      · rw [List.filterMap_cons, hk]
      · rfl
    | some n =>
      have e : compare (mapName p start) k = compare start n := by
        rw [(stripName_eq_some p k n).mp hk, compare_mapName]
      rw [List.filterMap_cons, hk, List.filter_cons, List.filter_cons, e, ← ih]
      split
      · rw [List.filterMap_cons, hk]
      · rfl

theorem keys_restrictRepos (p : Bytes) (m : List (Bytes × Repo)) :
    (restrictRepos p m).map (·.1) = (m.map (·.1)).filterMap (stripName p) := by
  induction m with
  | nil => rfl
  | cons kv m ih =>
    obtain ⟨k, v⟩ := kv
    cases h : stripName p k with
    | none => rw [restrictRepos_cons_none h, ih]; simp [h]
    | some n => rw [restrictRepos_cons_some h, List.map_cons, ih]; simp [h]

/-- The restricted registry's repository listing is the view's: list the wrapped registry from
`p/start`, keep the names under `p/`, strip. -/
theorem keysAfter_restrictRepos (p start : Bytes) (m : List (Bytes × Repo)) :
    keysAfter (restrictRepos p m) start = (keysAfter m (mapName p start)).filterMap (stripName p) := by
  unfold keysAfter
  rw [filterMap_sortBytes, filter_filterMap_strip, keys_restrictRepos]

/-! ### One step -/

/-- closes the leaves of a case split of `step` -/
macro "fin_restrict" : tactic =>
  `(tactic| repeat' (first | rfl | split | simp only [restrict_putRepo, restrict_putBuffer, restrict_setNextID, restrict_nextID]))

variable (H : Bytes → Bytes)

-- `(restrict p s).immutableTags` sits inside `Decidable` instances of `step`'s conditions, where no rewrite reaches it
/-- State and answer at once: a step of the restricted registry is the restriction of the step
the view makes on the whole registry, answered as the view answers. -/
theorem step_restrict {p : Bytes} (s : State) (op : Op) (hp : creates op = true → Ref.isRepo p = true) :
    step H (restrict p s) op =
      (restrict p (step H s (mapOp p op)).1, mapOut p op (step H s (mapOp p op)).2) := by
  cases op with
  | getBlob r d =>
    simp only [step, mapOp, mapOut, blobFor_restrict]
    cases blobFor s (mapName p r) d <;> rfl
  | getBlobRange r d o0 o1 =>
    simp only [step, mapOp, mapOut, blobFor_restrict]
    cases blobFor s (mapName p r) d with
    | error e => rfl
    | ok b => simp only []; repeat' (first | rfl | split)
  | getManifest r d =>
    simp only [step, mapOp, mapOut, manifestFor_restrict]
    cases manifestFor s (mapName p r) d <;> rfl
  | getTag r t =>
    simp only [step, mapOp, mapOut, getRepo_restrict]
    cases getRepo s (mapName p r) with
    | none => rfl
    | some rp =>
      simp only []
      cases alookup t rp.tags with
      | none => rfl
      | some d => simp only []; cases alookup d.digest rp.manifests <;> rfl
  | resolveBlob r d =>
    simp only [step, mapOp, mapOut, blobFor_restrict]
    cases blobFor s (mapName p r) d <;> rfl
  | resolveManifest r d =>
    simp only [step, mapOp, mapOut, manifestFor_restrict]
    cases manifestFor s (mapName p r) d <;> rfl
  | resolveTag r t =>
    simp only [step, mapOp, mapOut, getRepo_restrict]
    cases getRepo s (mapName p r) with
    | none => rfl
    | some rp => simp only []; cases alookup t rp.tags <;> rfl
  | pushBlob r desc data =>
    simp only [step, mapOp, mapOut, makeRepo_restrict (hp rfl)]
    cases checkDescData H desc data with
    | some e => rfl
    | none =>
      simp only []
      cases makeRepo s (mapName p r) with
      | none => rfl
      | some x => obtain ⟨s1, rp⟩ := x; simp only [Option.map_some]; fin_restrict
  | pushChunked r =>
    simp only [step, mapOp, mapOut, makeRepo_restrict (hp rfl)]
    cases makeRepo s (mapName p r) with
    | none => rfl
    | some x => obtain ⟨s1, rp⟩ := x; simp only [Option.map_some]; fin_restrict
  | resume r id offset =>
    simp only [step, mapOp, mapOut, makeRepo_restrict (hp rfl)]
    cases makeRepo s (mapName p r) with
    | none => rfl
    | some x => obtain ⟨s1, rp⟩ := x; simp only [Option.map_some]; fin_restrict
  | wWrite r id data =>
    simp only [step, mapOp, mapOut, getBuffer_restrict]
    cases getBuffer s (mapName p r) id with
    | none => rfl
    | some x => obtain ⟨rp, b⟩ := x; simp only []; fin_restrict
  | wSize r id =>
    simp only [step, mapOp, mapOut, getBuffer_restrict]
    cases getBuffer s (mapName p r) id with
    | none => rfl
    | some x => rfl
  | wCancel r id =>
    simp only [step, mapOp, mapOut, getBuffer_restrict]
    cases getBuffer s (mapName p r) id with
    | none => rfl
    | some x => obtain ⟨rp, b⟩ := x; simp only []; fin_restrict
  | wCommit r id dig =>
    simp only [step, mapOp, mapOut, getBuffer_restrict]
    cases getBuffer s (mapName p r) id with
    | none => rfl
    | some x => obtain ⟨rp, b⟩ := x; simp only []; fin_restrict
  | mount fromR toR d =>
    simp only [step, mapOp, mapOut, makeRepo_restrict (hp rfl)]
    cases makeRepo s (mapName p toR) with
    | none => rfl
    | some x =>
      obtain ⟨s1, rp⟩ := x
      simp only [Option.map_some, blobFor_restrict, getRepo_restrict]
      fin_restrict
  | pushManifest r t data mt dec =>
    simp only [step, mapOp, mapOut, makeRepo_restrict (hp rfl)]
    cases makeRepo s (mapName p r) with
    | none => rfl
    | some x =>
      obtain ⟨s1, rp⟩ := x
      simp only [Option.map_some]
      generalize himm : (restrict p s1).immutableTags = imm
      change s1.immutableTags = imm at himm
      subst himm
      repeat' (first | rfl | split | simp only [restrict_putRepo] | (simp_all; done))
  | deleteBlob r d =>
    simp only [step, mapOp, mapOut, blobFor_restrict, getRepo_restrict]
    generalize himm : (restrict p s).immutableTags = imm
    change s.immutableTags = imm at himm
    subst himm
    fin_restrict
  | deleteManifest r d =>
    simp only [step, mapOp, mapOut, manifestFor_restrict, getRepo_restrict]
    generalize himm : (restrict p s).immutableTags = imm
    change s.immutableTags = imm at himm
    subst himm
    fin_restrict
  | deleteTag r t =>
    simp only [step, mapOp, mapOut, getRepo_restrict]
    generalize himm : (restrict p s).immutableTags = imm
    change s.immutableTags = imm at himm
    subst himm
    fin_restrict
  | repositories start =>
    simp only [step, mapOp, mapOut, restrict_repos, keysAfter_restrictRepos]
  | tags r start =>
    simp only [step, mapOp, mapOut, getRepo_restrict]
    fin_restrict
  | referrers r d =>
    simp only [step, mapOp, mapOut, getRepo_restrict]
    fin_restrict

/-- The frame: a step of the view leaves every repository that is not under `p/` as it was
(same repositories, same contents, same order). -/
theorem step_outside (p : Bytes) (s : State) (op : Op) :
    outside p (step H s (mapOp p op)).1 = outside p s := by
  cases op <;> simp only [step, mapOp]
  all_goals (repeat' split)
  all_goals
    first
    | rfl
    | (simp only [outside_putRepo, outside_putBuffer, outside_setNextID] <;>
       first | rfl | exact outside_makeRepo (by assumption))
    | exact outside_makeRepo (by assumption)

/-! ### Histories -/

theorem run_restrict {p : Bytes} (s : State) (ops : List Op)
    (hp : (∃ op ∈ ops, creates op = true) → Ref.isRepo p = true) :
    run H (restrict p s) ops =
      (restrict p (run H s (ops.map (mapOp p))).1, mapOuts p ops (run H s (ops.map (mapOp p))).2) := by
  induction ops generalizing s with
  | nil => rfl
  | cons op ops ih =>
    have h1 : creates op = true → Ref.isRepo p = true := fun h => hp ⟨op, List.mem_cons_self, h⟩
    have h2 : (∃ o ∈ ops, creates o = true) → Ref.isRepo p = true :=
      fun ⟨o, ho, h⟩ => hp ⟨o, List.mem_cons_of_mem _ ho, h⟩
    simp only [run, List.map_cons, step_restrict H s op h1, ih _ h2, mapOuts]

theorem run_outside (p : Bytes) (s : State) (ops : List Op) :
    outside p (run H s (ops.map (mapOp p))).1 = outside p s := by
  induction ops generalizing s with
  | nil => rfl
  | cons op ops ih =>
    simp only [run, List.map_cons, ih, step_outside]

end OciModel.SubMem
