/-
Two hops: a client talking to a server whose backend is a client talking to a server in front of `B`.
The one-hop theorem (`hop_single`) composed with itself.
-/
import OciModel.WireLemmas

namespace OciModel.Wire
open OciModel OciModel.Ref OciModel.ReqCodec OciModel.RespCodec
open OciModel.ErrCodec (Err)
open OciModel.Props

/-- What the first hop delivers is again an answer the headers of the second can carry. -/
theorem expect_carriable (cfg1 cfg2 : Cfg) (c : Call) (a : Answer) (hid : c.idFree = true)
    (hs1 : Single cfg1 (onWire c)) (hwf : WF cfg2 c) (hcar : Carriable cfg1 (onWire c) a) :
    Carriable cfg2 c (asAnswer (expect cfg1 (onWire c) a)) := by
  cases a with
  | err e => simp [expect, asAnswer, Carriable]
  | ok b =>
    cases c with
    | getBlobRange repo dg o0 o1 =>
      obtain ⟨hR, hD, h0, h1max, hr⟩ := hwf
      by_cases hfull : o0 = 0 ∧ o1 < 0
      · simp only [onWire, hfull, and_self, if_true] at hcar ⊢
        cases b <;> simp only [Carriable] at hcar
        simpa [expect, expectOk, asAnswer, Carriable] using hcar
      · by_cases hopen : o1 < 0
        · have h0ne : ¬ o0 = 0 := fun e => hfull ⟨e, hopen⟩
          simp only [onWire, hopen, h0ne, false_and, if_false, if_true] at hcar ⊢
          cases b <;> simp only [Carriable] at hcar
          rename_i d content
          by_cases hin : o0 ≤ d.size <;>
            simp [expect, expectOk, asAnswer, Carriable, h0ne, hin, hcar]
        · simp only [onWire, hopen, and_false, if_false] at hcar ⊢
          cases b <;> simp only [Carriable] at hcar
          rename_i d content
          by_cases hin : o0 ≤ d.size <;>
            simp [expect, expectOk, asAnswer, Carriable, hopen, hin, hcar]
    | getManifest repo dg =>
      cases b <;> simp only [onWire, Carriable] at hcar
      rename_i d content
      simp only [onWire, expect, expectOk, asAnswer, Carriable]
      exact ⟨hcar.1, fun _ => hwf.2⟩          -- F31: the first hop delivers the digest asked for
    | resolveManifest repo dg =>
      cases b <;> simp only [onWire, Carriable] at hcar
      rename_i d
      simp only [onWire, expect, expectOk, asAnswer, Carriable]
      exact ⟨hcar.1, hwf.2⟩
    | getTag repo tag =>
      have ho : cfg1.o.omitDigest = false := hs1
      cases b <;> simp only [onWire, Carriable] at hcar
      rename_i d content
      simp only [onWire, expect, expectOk, asAnswer, Carriable]
      exact ⟨hcar.1, fun _ => hcar.2 ho⟩
    | getBlob repo dg =>
      cases b <;> simp only [onWire, Carriable] at hcar
      simpa [onWire, expect, expectOk, asAnswer, Carriable] using hcar
    | resolveBlob repo dg =>
      cases b <;> simp only [onWire, Carriable] at hcar
      simp only [onWire, expect, expectOk, asAnswer, Carriable]
      exact ⟨hcar.1, hwf.2⟩
    | resolveTag repo tag =>
      cases b <;> simp only [onWire, Carriable] at hcar
      simpa [onWire, expect, expectOk, asAnswer, Carriable] using hcar
    | pushManifest repo tag content mt =>
      cases b <;> simp only [onWire, Carriable] at hcar
      simp [onWire, expect, expectOk, asAnswer, Carriable]
    | mountBlob fromRepo toRepo dg =>
      cases b <;> simp only [onWire, Carriable] at hcar
      simp only [onWire, expect, expectOk, asAnswer, Carriable]
      exact hwf.2.2
    | deleteBlob repo dg =>
      cases b <;> simp only [onWire, Carriable] at hcar
      simp [onWire, expect, expectOk, asAnswer, Carriable]
    | deleteManifest repo dg =>
      cases b <;> simp only [onWire, Carriable] at hcar
      simp [onWire, expect, expectOk, asAnswer, Carriable]
    | deleteTag repo tag =>
      cases b <;> simp only [onWire, Carriable] at hcar
      simp [onWire, expect, expectOk, asAnswer, Carriable]
    | _ => cases hid

theorem two_hops {σ : Type} (cfg1 cfg2 : Cfg) (ht1 : TableOK cfg1.table) (ht2 : TableOK cfg2.table)
    (fuel : Nat) (B : SBackend σ) (st : (σ × List Call) × List Call) (c : Call) (hid : c.idFree = true)
    (hs1 : Single cfg1 (onWire c)) (hs2 : Single cfg2 c) (hwf1 : WF cfg1 (onWire c)) (hwf2 : WF cfg2 c)
    (hcar : Carriable cfg1 (onWire c) (B st.1.1 (onWire c)).2) :
    hopS cfg2 fuel (hopBackend cfg1 fuel B) st c =
      ((((B st.1.1 (onWire c)).1, st.1.2 ++ [onWire c]), st.2 ++ [onWire c]),
        expect cfg2 c (asAnswer (expect cfg1 (onWire c) (B st.1.1 (onWire c)).2))) := by
  have hinner : hopS cfg1 fuel B st.1 (onWire c) =
      (((B st.1.1 (onWire c)).1, st.1.2 ++ [onWire c]), expect cfg1 (onWire c) (B st.1.1 (onWire c)).2) := by
    have := hop_single cfg1 ht1 fuel B st.1 (onWire c) hs1 hwf1 (by rw [onWire_idem]; exact hcar)
    rw [onWire_idem] at this
    exact this
  have hB : hopBackend cfg1 fuel B st.1 (onWire c) =
      (((B st.1.1 (onWire c)).1, st.1.2 ++ [onWire c]), asAnswer (expect cfg1 (onWire c) (B st.1.1 (onWire c)).2)) := by
    simp only [hopBackend, hinner]
  have := hop_single cfg2 ht2 fuel (hopBackend cfg1 fuel B) st c hs2 hwf2
    (by rw [hB]; exact expect_carriable cfg1 cfg2 c _ hid hs1 hwf2 hcar)
  rw [this, hB]

/-- marshalling the error a hop delivered gives what marshalling the original gave (C07: a further hop
changes nothing) -/
theorem mar_hop_fixed (cfg : Cfg) (hc : ∀ d, cfg.compact (cfg.compact d) = cfg.compact d) (e : Err) :
    mar cfg (faultErr (.reg (ErrCodec.unmarshal cfg.stdMsg false (mar cfg e)))) = mar cfg e := by
  have h := C07.hop_idempotent cfg.S cfg.C cfg.compact cfg.table cfg.stdMsg hc e
  simp only [ErrCodec.hop, ErrCodec.unmarshal, Bool.false_eq_true, if_false] at h
  simp only [faultErr, mar, ErrCodec.unmarshal, Bool.false_eq_true, if_false]
  injection h with h1 h2
  injection h2 with h3 _
  exact Prod.ext h1 h3

end OciModel.Wire

namespace OciModel.Wire
open OciModel OciModel.Ref OciModel.ReqCodec OciModel.RespCodec
open OciModel.ErrCodec (Err)
open OciModel.Props

theorem octetStream_ne_nil : octetStream ≠ [] := by decide

@[simp] theorem orOctetStream_idem (mt : Bytes) : orOctetStream (orOctetStream mt) = orOctetStream mt := by
  unfold orOctetStream
  by_cases h : mt = []
  · simp [h, octetStream_ne_nil]
  · simp [h]

theorem two_hops_ok_equiv (cfg1 cfg2 : Cfg) (c : Call) (b : BRes) (hid : c.idFree = true)
    (hs1 : Single cfg1 (onWire c)) (hcar : Carriable cfg1 (onWire c) (.ok b))
    (hf : Faithful cfg1 (onWire c) (.ok b)) (hf2 : Faithful cfg2 c (asAnswer (expect cfg1 (onWire c) (.ok b)))) :
    Equiv cfg2 c (expect cfg2 c (asAnswer (expect cfg1 (onWire c) (.ok b)))) (.ok b) := by
  cases c with
  | getBlobRange repo dg o0 o1 =>
    by_cases hfull : o0 = 0 ∧ o1 < 0
    · simp only [onWire, hfull, and_self, if_true] at hcar hf hf2 ⊢
      cases b <;> simp only [Carriable] at hcar
      rename_i d content
      simp only [Faithful] at hf
      simp [Equiv, expect, expectOk, asAnswer, DescEquiv, Call.carriesMediaType, hfull, hf]
    · by_cases hopen : o1 < 0
      · have h0ne : ¬ o0 = 0 := fun e => hfull ⟨e, hopen⟩
        simp only [onWire, hopen, h0ne, false_and, if_false, if_true] at hcar hf hf2 ⊢
        cases b <;> simp only [Carriable] at hcar
        rename_i d content
        simp only [Faithful] at hf
        simp [Equiv, expect, expectOk, asAnswer, DescEquiv, Call.carriesMediaType, h0ne, hf.1, hf.2]
      · simp only [onWire, hopen, and_false, if_false] at hcar hf hf2 ⊢
        cases b <;> simp only [Carriable] at hcar
        rename_i d content
        simp only [Faithful] at hf
        simp [Equiv, expect, expectOk, asAnswer, DescEquiv, Call.carriesMediaType, hopen, hf.1, hf.2]
  | getTag repo tag =>
    have ho : cfg1.o.omitDigest = false := hs1
    cases b <;> simp only [onWire, Carriable] at hcar
    simp [Equiv, expect, expectOk, asAnswer, DescEquiv, Call.carriesMediaType, onWire]
  | getManifest repo dg =>
    cases b <;> simp only [onWire, Carriable] at hcar
    simp only [onWire, Faithful, expect, expectOk, asAnswer] at hf hf2
    simp only [Equiv, expect, expectOk, asAnswer, DescEquiv, Call.carriesMediaType, onWire]
    exact ⟨_, _, rfl, hf.symm, rfl, by simp⟩      -- F31: both hops report `dg`; `hf` says it is the backend's
  | resolveManifest repo dg =>
    cases b <;> simp only [onWire, Carriable] at hcar
    simp only [onWire, Faithful, expect, expectOk, asAnswer] at hf hf2
    simp only [Equiv, expect, expectOk, asAnswer, DescEquiv, Call.carriesMediaType, onWire]
    exact ⟨_, rfl, hf.symm, rfl, by simp⟩
  | getBlob repo dg =>
    cases b <;> simp only [onWire, Carriable] at hcar
    simp only [onWire, Faithful] at hf
    simp [Equiv, expect, expectOk, asAnswer, DescEquiv, Call.carriesMediaType, onWire, hf]
  | resolveBlob repo dg =>
    cases b <;> simp only [onWire, Carriable] at hcar
    simp only [onWire, Faithful] at hf
    simp [Equiv, expect, expectOk, asAnswer, DescEquiv, Call.carriesMediaType, onWire, hf]
  | resolveTag repo tag =>
    cases b <;> simp only [onWire, Carriable] at hcar
    simp [Equiv, expect, expectOk, asAnswer, DescEquiv, Call.carriesMediaType, onWire]
  | pushManifest repo tag content mt =>
    cases b <;> simp only [onWire, Carriable] at hcar
    simp only [onWire, Faithful] at hf
    simp only [onWire, Faithful, expect, expectOk, asAnswer] at hf2
    simp [Equiv, expect, expectOk, asAnswer, DescEquiv, Call.carriesMediaType, onWire, hf.1, hf.2.1, hf.2.2, hf2.1]
  | mountBlob fromRepo toRepo dg =>
    cases b <;> simp only [onWire, Carriable] at hcar
    simp only [onWire, Faithful] at hf
    simp [Equiv, expect, expectOk, asAnswer, onWire, hf]
  | deleteBlob repo dg =>
    cases b <;> simp only [onWire, Carriable] at hcar
    simp [Equiv, expect, expectOk, asAnswer, onWire]
  | deleteManifest repo dg =>
    cases b <;> simp only [onWire, Carriable] at hcar
    simp [Equiv, expect, expectOk, asAnswer, onWire]
  | deleteTag repo tag =>
    cases b <;> simp only [onWire, Carriable] at hcar
    simp [Equiv, expect, expectOk, asAnswer, onWire]
  | _ => cases hid

end OciModel.Wire
