/-
Lemmas about the manifest decoder (`ManifestDecode.lean`): member order, members that select no
field, canonical documents, where references come from, trailing bytes.
-/
import OciModel.ManifestDecode
import OciModel.JsonLemmas
set_option linter.unusedSimpArgs false
namespace OciModel.ManifestDecode
open OciModel OciModel.Json OciModel.Mem

/-! ## Folding members: the Option-state view -/

theorem foldlM_eq_foldl {σ α : Type} (f : σ → α → Option σ) (l : List α) (s : Option σ) :
    s.bind (fun s => l.foldlM f s) = l.foldl (fun acc a => acc.bind (f · a)) s := by
  induction l generalizing s with
  | nil => cases s <;> simp
  | cons a l ih =>
    simp only [List.foldlM_cons, List.foldl_cons]
    rw [← ih]
    cases s <;> simp

theorem foldlM_eq_foldl' {σ α : Type} (f : σ → α → Option σ) (l : List α) (s : σ) :
    l.foldlM f s = l.foldl (fun acc a => acc.bind (f · a)) (some s) := by
  simpa using foldlM_eq_foldl f l (some s)

/-- Two members that do not select the same field. -/
def Indep {F : Type} (table : List (Bytes × F)) (a b : Bytes × JVal) : Prop :=
  lookupField table a.1 ≠ lookupField table b.1 ∨ lookupField table a.1 = none

theorem perm_foldlM {σ : Type} (f : σ → (Bytes × JVal) → Option σ) {l₁ l₂ : List (Bytes × JVal)}
    (p : l₁.Perm l₂) (R : (Bytes × JVal) → (Bytes × JVal) → Prop) (hR : ∀ a b, R a b → R b a)
    (hp : l₁.Pairwise R)
    (comm : ∀ a b, R a b → ∀ s, (f s a).bind (f · b) = (f s b).bind (f · a)) (s : σ) :
    l₁.foldlM f s = l₂.foldlM f s := by
  rw [foldlM_eq_foldl', foldlM_eq_foldl']
  apply List.Perm.foldl_eq' p
  have hall : ∀ ⦃x⦄, x ∈ l₁ → ∀ ⦃y⦄, y ∈ l₁ → (x = y ∨ R x y) := by
    apply List.Pairwise.forall_of_forall_of_flip
    · intro x _; exact Or.inl rfl
    · exact hp.imp Or.inr
    · exact hp.imp (fun h => Or.inr (hR _ _ h))
  intro x hx y hy z
  rcases hall hx hy with rfl | h
  · rfl
  · cases z with
    | none => rfl
    | some s => simpa using comm x y h s


theorem indep_symm {F : Type} [DecidableEq F] (table : List (Bytes × F)) (a b : Bytes × JVal)
    (h : Indep table a b ∨ Indep table b a) : lookupField table a.1 ≠ lookupField table b.1 ∨
      (lookupField table a.1 = none ∧ lookupField table b.1 = none) := by
  unfold Indep at h
  by_cases e : lookupField table a.1 = lookupField table b.1
  · right
    rcases h with (h | h) | (h | h)
    · exact absurd e h
    · exact ⟨h, e ▸ h⟩
    · exact absurd e.symm h
    · exact ⟨e ▸ h, h⟩
  · left; exact e

theorem check_bind_left {σ : Type} (b : Bool) (s : σ) (f : σ → Option σ) :
    (check b s).bind f = (f s).bind (fun s' => check b s') := by
  cases b <;> cases h : f s <;> simp [check, h]

theorem check_bind_right {σ : Type} (b : Bool) (s : σ) (f : σ → Option σ) :
    (f s).bind (fun s' => check b s') = (check b s).bind f := (check_bind_left b s f).symm

theorem descStep_comm (a b : Bytes × JVal) (h : Indep descTable a b) (d : Desc) :
    (descStep d a).bind (descStep · b) = (descStep d b).bind (descStep · a) := by
  rcases indep_symm descTable a b (Or.inl h) with hne | ⟨ha, hb⟩
  · unfold descStep
    cases hfa : lookupField descTable a.1 with
    | none => simp
    | some fa =>
      cases hfb : lookupField descTable b.1 with
      | none => simp [hfa]
      | some fb =>
        have hab : fa ≠ fb := by intro e; apply hne; rw [hfa, hfb, e]
        cases fa <;> cases fb <;> first | exact absurd rfl hab | skip
        all_goals first
          | exact check_bind_left _ _ _
          | (symm; exact check_bind_left _ _ _)
          | ((cases h1 : setStr a.2 d.mediaType <;> cases h2 : setStr b.2 d.digest <;> simp [h1, h2]); done)
          | ((cases h1 : setStr a.2 d.mediaType <;> cases h2 : setInt b.2 d.size <;> simp [h1, h2]); done)
          | ((cases h1 : setStr a.2 d.digest <;> cases h2 : setStr b.2 d.mediaType <;> simp [h1, h2]); done)
          | ((cases h1 : setStr a.2 d.digest <;> cases h2 : setInt b.2 d.size <;> simp [h1, h2]); done)
          | ((cases h1 : setInt a.2 d.size <;> cases h2 : setStr b.2 d.mediaType <;> simp [h1, h2]); done)
          | ((cases h1 : setInt a.2 d.size <;> cases h2 : setStr b.2 d.digest <;> simp [h1, h2]); done)
  · simp [descStep, ha, hb]


theorem topStep_comm (table : List (Bytes × TopField)) (a b : Bytes × JVal) (h : Indep table a b) (m : Top) :
    (topStep table m a).bind (topStep table · b) = (topStep table m b).bind (topStep table · a) := by
  rcases indep_symm table a b (Or.inl h) with hne | ⟨ha, hb⟩
  · unfold topStep
    cases hfa : lookupField table a.1 with
    | none => simp
    | some fa =>
      cases hfb : lookupField table b.1 with
      | none => simp [hfa]
      | some fb =>
        have hab : fa ≠ fb := by intro e; apply hne; rw [hfa, hfb, e]
        cases fa <;> cases fb <;> first | exact absurd rfl hab | skip
        all_goals first
          | exact check_bind_left _ _ _
          | (symm; exact check_bind_left _ _ _)
          | ((cases h1 : mergeDesc m.config a.2 <;> cases h2 : sliceStep m.items b.2 <;> simp [h1, h2]); done)
          | ((cases h1 : mergeDesc m.config a.2 <;> cases h2 : ptrStep m.subject b.2 <;> simp [h1, h2]); done)
          | ((cases h1 : sliceStep m.items a.2 <;> cases h2 : mergeDesc m.config b.2 <;> simp [h1, h2]); done)
          | ((cases h1 : sliceStep m.items a.2 <;> cases h2 : ptrStep m.subject b.2 <;> simp [h1, h2]); done)
          | ((cases h1 : ptrStep m.subject a.2 <;> cases h2 : mergeDesc m.config b.2 <;> simp [h1, h2]); done)
          | ((cases h1 : ptrStep m.subject a.2 <;> cases h2 : sliceStep m.items b.2 <;> simp [h1, h2]); done)
  · simp [topStep, ha, hb]

/-- The members of a descriptor object may come in any order, as long as no two of them select
the same field. -/
theorem mergeDesc_perm (base : Desc) {l₁ l₂ : List (Bytes × JVal)} (p : l₁.Perm l₂)
    (hp : l₁.Pairwise (Indep descTable)) : mergeDesc base (.obj l₁) = mergeDesc base (.obj l₂) := by
  simp only [mergeDesc]
  refine perm_foldlM descStep p (fun a b => Indep descTable a b ∨ Indep descTable b a) (fun a b h => h.symm)
    (hp.imp Or.inl) ?_ base
  intro a b h d
  rcases h with h | h
  · exact descStep_comm a b h d
  · exact (descStep_comm b a h d).symm

theorem decodeTop_perm (table : List (Bytes × TopField)) {l₁ l₂ : List (Bytes × JVal)} (p : l₁.Perm l₂)
    (hp : l₁.Pairwise (Indep table)) : decodeTop table (.obj l₁) = decodeTop table (.obj l₂) := by
  simp only [decodeTop]
  refine perm_foldlM (topStep table) p (fun a b => Indep table a b ∨ Indep table b a) (fun a b h => h.symm)
    (hp.imp Or.inl) ?_ {}
  intro a b h d
  rcases h with h | h
  · exact topStep_comm table a b h d
  · exact (topStep_comm table b a h d).symm

/-! ## Members that select no field -/

theorem mergeDesc_unknown (base : Desc) (l₁ l₂ : List (Bytes × JVal)) (k : Bytes) (v : JVal)
    (hk : lookupField descTable k = none) :
    mergeDesc base (.obj (l₁ ++ (k, v) :: l₂)) = mergeDesc base (.obj (l₁ ++ l₂)) := by
  simp only [mergeDesc, List.foldlM_append, List.foldlM_cons]
  congr 1; funext d
  simp [descStep, hk]

theorem decodeTop_unknown (table : List (Bytes × TopField)) (l₁ l₂ : List (Bytes × JVal)) (k : Bytes) (v : JVal)
    (hk : lookupField table k = none) :
    decodeTop table (.obj (l₁ ++ (k, v) :: l₂)) = decodeTop table (.obj (l₁ ++ l₂)) := by
  simp only [decodeTop, List.foldlM_append, List.foldlM_cons]
  congr 1; funext d
  simp [topStep, hk]

/-! ## Decimal text -/

theorem digitByte_toNat (n : Nat) : (digitByte n).toNat = 0x30 + n % 10 := by
  simp [digitByte, UInt8.toNat_ofNat']
  omega

theorem isDigit_digitByte (n : Nat) : isDigit (digitByte n) = true := by
  simp [isDigit, digitByte_toNat]; omega

def dval (acc : Nat) (c : UInt8) : Nat := acc * 10 + (c.toNat - 0x30)

theorem natTextF_spec : ∀ (f n : Nat), n < f →
    natTextF f n ≠ [] ∧ (natTextF f n).all isDigit = true ∧ (natTextF f n).foldl dval 0 = n := by
  intro f
  induction f with
  | zero => intro n h; omega
  | succ f ih =>
    intro n h
    unfold natTextF
    by_cases h10 : n < 10
    · simp [h10, isDigit_digitByte, dval, digitByte_toNat]
    · have := ih (n / 10) (by omega)
      simp [h10, this.2.1, isDigit_digitByte, List.foldl_append, this.2.2, dval, digitByte_toNat]
      omega

theorem digitsVal_natText (n : Nat) : digitsVal (natText n) = some n := by
  have h := natTextF_spec (n + 1) n (by omega)
  unfold natText
  unfold digitsVal
  split
  · rename_i e; exact absurd e h.1
  · simp only [h.2.1, if_true]
    have := h.2.2
    unfold dval at this
    rw [this]

theorem natText_ne_nil (n : Nat) : natText n ≠ [] := (natTextF_spec (n + 1) n (by omega)).1

theorem natText_head_not_minus (n : Nat) : ∀ c r, natText n = c :: r → c.toNat ≠ 0x2D := by
  intro c r h
  have := (natTextF_spec (n + 1) n (by omega)).2.1
  unfold natText at h
  rw [h] at this
  simp [isDigit] at this
  omega

theorem parseInt64_intText (i : Int) (h1 : -9223372036854775808 ≤ i) (h2 : i ≤ 9223372036854775807) :
    parseInt64 (intText i) = some i := by
  unfold intText
  by_cases hneg : i < 0
  · simp only [hneg, if_true, parseInt64]
    simp only [show (0x2D : UInt8).toNat = 0x2D from by decide, if_true, digitsVal_natText]
    have : (-i).toNat ≤ 9223372036854775808 := by omega
    simp [this]; omega
  · simp only [hneg, if_false]
    cases hn : natText i.toNat with
    | nil => exact absurd hn (natText_ne_nil _)
    | cons c r =>
      have hc := natText_head_not_minus _ c r hn
      simp only [parseInt64, hc, if_false]
      rw [← hn, digitsVal_natText]
      have : i.toNat ≤ 9223372036854775807 := by omega
      simp [this]; omega


theorem numGo_natTextF : ∀ (f n : Nat), n < f → 1 ≤ n → ∀ (st : NumSt), (st = .begin ∨ st = .neg) → ∀ r,
    numGo st (natTextF f n ++ r) = (numGo .int r).map (· + (natTextF f n).length) := by
  intro f
  induction f with
  | zero => intro n h; omega
  | succ f ih =>
    intro n h h1 st hst r
    unfold natTextF
    by_cases h10 : n < 10
    · simp only [h10, if_true, List.cons_append, List.nil_append, numGo]
      have hd := digitByte_toNat n
      have hn : n % 10 = n := Nat.mod_eq_of_lt h10
      have : numStep st (digitByte n) = some .int := by
        rcases hst with rfl | rfl
        · simp only [numStep, hd]; rw [if_neg (by omega), if_neg (by omega), if_pos (by omega)]
        · simp only [numStep, hd]; rw [if_neg (by omega), if_pos (by omega)]
      simp [this]
    · simp only [h10, if_false, List.append_assoc, List.cons_append, List.nil_append]
      rw [ih (n / 10) (by omega) (by omega) st hst]
      simp only [numGo]
      have hd := digitByte_toNat n
      have : numStep .int (digitByte n) = some .int := by
        simp only [numStep, hd]; rw [if_pos (by omega)]
      simp [this, Option.map_map]
      cases numGo .int r <;> simp; omega

theorem numOK_intText (i : Int) : NumOK (intText i) := by
  unfold NumOK spanNum intText
  by_cases hneg : i < 0
  · simp only [hneg, if_true, numGo]
    simp only [show numStep .begin 0x2D = some .neg from by decide]
    have := numGo_natTextF ((-i).toNat + 1) (-i).toNat (by omega) (by omega) .neg (Or.inr rfl) []
    simp only [List.append_nil] at this
    simp [natText, this, numGo, NumSt.accepting]
  · simp only [hneg, if_false]
    by_cases h0 : i.toNat = 0
    · rw [h0]; decide
    · have := numGo_natTextF (i.toNat + 1) i.toNat (by omega) (by omega) .begin (Or.inl rfl) []
      simp only [List.append_nil] at this
      simp [natText, this, numGo, NumSt.accepting]


/-! ## Canonical documents decode to what they say -/

theorem mergeDesc_descJ (base d : Desc) (h : DescOK d) : mergeDesc base (descJ d) = some d := by
  have hk1 : lookupField descTable (strBytes "mediaType") = some .mediaType := by decide
  have hk2 : lookupField descTable (strBytes "digest") = some .digest := by decide
  have hk3 : lookupField descTable (strBytes "size") = some .size := by decide
  simp [mergeDesc, descJ, descStep, hk1, hk2, hk3, setStr, setInt, parseInt64_intText d.size h.2.2.1 h.2.2.2]

theorem mergeElems_descJ (back ds : List Desc) (h : ∀ d ∈ ds, DescOK d) :
    mergeElems back (ds.map descJ) = some ds := by
  induction ds generalizing back with
  | nil => rfl
  | cons d ds ih =>
    simp only [List.map_cons, mergeElems, mergeDesc_descJ _ d (h d (by simp))]
    rw [ih _ (fun x hx => h x (by simp [hx]))]

theorem sliceStep_descJ (ds : List Desc) (h : ∀ d ∈ ds, DescOK d) :
    (sliceStep {} (.arr (ds.map descJ))).map (·.vis) = some ds := by
  cases ds with
  | nil => rfl
  | cons d ds =>
    simp only [List.map_cons, sliceStep]
    have := mergeElems_descJ [] (d :: ds) h
    simp only [List.map_cons] at this
    simp [this]

theorem ptrStep_descJ (p : Option Desc) (d : Desc) (h : DescOK d) : ptrStep p (descJ d) = some (some d) := by
  have : ptrStep p (descJ d) = (mergeDesc (p.getD zeroDesc) (descJ d)).map some := by
    simp [ptrStep, descJ]
  rw [this, mergeDesc_descJ _ d h]; rfl


theorem decodeTop_manifestJ (m : Manifest) (h : m.OK) :
    (decodeTop manifestTable (manifestJ m)).map imageRefs = some m.refs := by
  have hk1 : lookupField manifestTable (strBytes "schemaVersion") = some .schemaVersion := by decide
  have hk2 : lookupField manifestTable (strBytes "mediaType") = some .mediaType := by decide
  have hk3 : lookupField manifestTable (strBytes "config") = some .config := by decide
  have hk4 : lookupField manifestTable (strBytes "layers") = some .items := by decide
  have hk5 : lookupField manifestTable (strBytes "subject") = some .subject := by decide
  have hs : okInt (.num [0x32]) = true := by decide
  obtain ⟨hc, hl, hsub⟩ := h
  have hsl := sliceStep_descJ m.layers hl
  cases hsl' : sliceStep {} (.arr (m.layers.map descJ)) with
  | none => simp [hsl'] at hsl
  | some sl =>
    simp only [hsl', Option.map_some, Option.some.injEq] at hsl
    cases hsubj : m.subject with
    | none =>
      simp [decodeTop, manifestJ, subjectJ, hsubj, topStep, hk1, hk2, hk3, hk4, check, hs, okStr,
        mergeDesc_descJ _ _ hc, hsl', imageRefs, Manifest.refs, hsl]
    | some sd =>
      simp [decodeTop, manifestJ, subjectJ, hsubj, topStep, hk1, hk2, hk3, hk4, hk5, check, hs, okStr,
        mergeDesc_descJ _ _ hc, hsl', imageRefs, Manifest.refs, hsl, ptrStep_descJ _ sd (hsub sd hsubj)]

theorem decodeTop_indexJ (m : Index) (h : m.OK) :
    (decodeTop indexTable (indexJ m)).map indexRefs = some m.refs := by
  have hk1 : lookupField indexTable (strBytes "schemaVersion") = some .schemaVersion := by decide
  have hk2 : lookupField indexTable (strBytes "mediaType") = some .mediaType := by decide
  have hk4 : lookupField indexTable (strBytes "manifests") = some .items := by decide
  have hk5 : lookupField indexTable (strBytes "subject") = some .subject := by decide
  have hs : okInt (.num [0x32]) = true := by decide
  obtain ⟨hl, hsub⟩ := h
  have hsl := sliceStep_descJ m.manifests hl
  cases hsl' : sliceStep {} (.arr (m.manifests.map descJ)) with
  | none => simp [hsl'] at hsl
  | some sl =>
    simp only [hsl', Option.map_some, Option.some.injEq] at hsl
    cases hsubj : m.subject with
    | none =>
      simp [decodeTop, indexJ, subjectJ, hsubj, topStep, hk1, hk2, hk4, check, hs, okStr,
        hsl', indexRefs, Index.refs, hsl]
    | some sd =>
      simp [decodeTop, indexJ, subjectJ, hsubj, topStep, hk1, hk2, hk4, hk5, check, hs, okStr,
        hsl', indexRefs, Index.refs, hsl, ptrStep_descJ _ sd (hsub sd hsubj)]


/-! ## Canonical documents are well-formed and shallow -/

theorem wf_descJ (d : Desc) (h : DescOK d) : WF (descJ d) := by
  have k1 : ValidUtf8 (strBytes "mediaType") := by decide
  have k2 : ValidUtf8 (strBytes "digest") := by decide
  have k3 : ValidUtf8 (strBytes "size") := by decide
  simp only [descJ, WF, WFM]
  exact ⟨k1, h.1, k2, h.2.1, k3, numOK_intText d.size, trivial⟩

theorem depth_descJ (d : Desc) : depth (descJ d) = 1 := by
  simp [descJ, depth, depthM]

theorem wfl_descJ (ds : List Desc) (h : ∀ d ∈ ds, DescOK d) : WFL (ds.map descJ) := by
  induction ds with
  | nil => trivial
  | cons d ds ih =>
    simp only [List.map_cons, WFL]
    exact ⟨wf_descJ d (h d (by simp)), ih (fun x hx => h x (by simp [hx]))⟩

theorem depthL_descJ (ds : List Desc) : depthL (ds.map descJ) ≤ 1 := by
  induction ds with
  | nil => simp [depthL]
  | cons d ds ih => simp only [List.map_cons, depthL, depth_descJ]; omega

theorem wfm_subjectJ (s : Option Desc) (h : ∀ d, s = some d → DescOK d) : WFM (subjectJ s) := by
  cases s with
  | none => trivial
  | some d =>
    have k : ValidUtf8 (strBytes "subject") := by decide
    simp only [subjectJ, WFM]
    exact ⟨k, wf_descJ d (h d rfl), trivial⟩

theorem depthM_subjectJ (s : Option Desc) : depthM (subjectJ s) ≤ 1 := by
  cases s <;> simp [subjectJ, depthM, depth_descJ]

theorem wf_manifestJ (m : Manifest) (h : m.OK) : WF (manifestJ m) := by
  have k1 : ValidUtf8 (strBytes "schemaVersion") := by decide
  have k2 : ValidUtf8 (strBytes "mediaType") := by decide
  have k3 : ValidUtf8 (strBytes "config") := by decide
  have k4 : ValidUtf8 (strBytes "layers") := by decide
  have k5 : ValidUtf8 imageMT := by decide
  have k6 : NumOK [0x32] := by decide
  simp only [manifestJ, List.cons_append, List.nil_append, WF, WFM]
  exact ⟨k1, k6, k2, k5, k3, wf_descJ _ h.1, k4, wfl_descJ _ h.2.1, wfm_subjectJ _ h.2.2⟩

theorem depth_manifestJ (m : Manifest) : depth (manifestJ m) ≤ 3 := by
  have h1 := depthL_descJ m.layers
  have h2 := depthM_subjectJ m.subject
  simp only [manifestJ, List.cons_append, List.nil_append, depth, depthM, depth_descJ]
  omega

theorem wf_indexJ (m : Index) (h : m.OK) : WF (indexJ m) := by
  have k1 : ValidUtf8 (strBytes "schemaVersion") := by decide
  have k2 : ValidUtf8 (strBytes "mediaType") := by decide
  have k4 : ValidUtf8 (strBytes "manifests") := by decide
  have k5 : ValidUtf8 indexMT := by decide
  have k6 : NumOK [0x32] := by decide
  simp only [indexJ, List.cons_append, List.nil_append, WF, WFM]
  exact ⟨k1, k6, k2, k5, k4, wfl_descJ _ h.1, wfm_subjectJ _ h.2⟩

theorem depth_indexJ (m : Index) : depth (indexJ m) ≤ 3 := by
  have h1 := depthL_descJ m.manifests
  have h2 := depthM_subjectJ m.subject
  simp only [indexJ, List.cons_append, List.nil_append, depth, depthM]
  omega

theorem decodeRefs_manifest (m : Manifest) (h : m.OK) (ws1 ws2 : Bytes)
    (h1 : ws1.all isWs = true) (h2 : ws2.all isWs = true) :
    decodeRefs imageMT (ws1 ++ print (manifestJ m) ++ ws2) = .refs m.refs := by
  have hp := parse_print_ws (manifestJ m) (wf_manifestJ m h)
    (Nat.le_trans (depth_manifestJ m) (by decide)) ws1 ws2 h1 h2
  have hd := decodeTop_manifestJ m h
  simp only [decodeRefs, if_true, decodeWith, hp, refsOfVal]
  cases hdt : decodeTop manifestTable (manifestJ m) with
  | none => simp [hdt] at hd
  | some t => simp [hdt] at hd; simp [hd]

theorem decodeRefs_index (m : Index) (h : m.OK) (ws1 ws2 : Bytes)
    (h1 : ws1.all isWs = true) (h2 : ws2.all isWs = true) :
    decodeRefs indexMT (ws1 ++ print (indexJ m) ++ ws2) = .refs m.refs := by
  have hp := parse_print_ws (indexJ m) (wf_indexJ m h)
    (Nat.le_trans (depth_indexJ m) (by decide)) ws1 ws2 h1 h2
  have hd := decodeTop_indexJ m h
  have hne : indexMT ≠ imageMT := by decide
  simp only [decodeRefs, hne, if_false, if_true, decodeWith, hp, refsOfVal]
  cases hdt : decodeTop indexTable (indexJ m) with
  | none => simp [hdt] at hd
  | some t => simp [hdt] at hd; simp [hd]

/-! ## Trailing bytes -/

theorem decodeTop_not_num (table : List (Bytes × TopField)) (v : JVal) (m : Top)
    (h : decodeTop table v = some m) : ∀ x, v ≠ .num x := by
  intro x e; subst e; simp [decodeTop] at h

theorem decodeWith_trailing (table : List (Bytes × TopField)) (refs : Top → List RefInfo) (d junk : Bytes)
    (rs : List RefInfo) (h : decodeWith table refs d = .refs rs) (hj : junk.all isWs = false) :
    decodeWith table refs (d ++ junk) = .malformed := by
  unfold decodeWith at h ⊢
  cases hp : parse d with
  | none => simp [hp] at h
  | some v =>
    simp only [hp, refsOfVal] at h
    cases hd : decodeTop table v with
    | none => simp [hd] at h
    | some m =>
      have hv := decodeTop_not_num table v m hd
      unfold parse at hp
      cases hl : lex d with
      | none => simp [hl] at hp
      | some ts =>
        simp only [hl] at hp
        have := parse_append_none d junk ts v hl hp hj (Or.inl (parseToks_endsNum ts v hp hv))
        simp [this]

theorem decodeRefs_trailing (mt d junk : Bytes) (rs : List RefInfo) (h : decodeRefs mt d = .refs rs)
    (hj : junk.all isWs = false) : decodeRefs mt (d ++ junk) = .malformed := by
  unfold decodeRefs at h ⊢
  by_cases h1 : mt = imageMT
  · simp only [h1, if_true] at h ⊢; exact decodeWith_trailing _ _ d junk rs h hj
  · simp only [h1, if_false] at h ⊢
    by_cases h2 : mt = indexMT
    · simp only [h2, if_true] at h ⊢; exact decodeWith_trailing _ _ d junk rs h hj
    · simp [h2] at h

/-! ## Where references come from -/

/-- Every string and number of `j` occurs in `V`. -/
def Sub (j V : JVal) : Prop := (∀ s, HasStr s j → HasStr s V) ∧ (∀ t, HasNum t j → HasNum t V)

theorem sub_refl (V : JVal) : Sub V V := ⟨fun _ h => h, fun _ h => h⟩

theorem sub_trans {a b c : JVal} (h1 : Sub a b) (h2 : Sub b c) : Sub a c :=
  ⟨fun s h => h2.1 s (h1.1 s h), fun t h => h2.2 t (h1.2 t h)⟩

theorem hasStrM_of_mem {s : Bytes} {kvs : List (Bytes × JVal)} {k : Bytes} {x : JVal} (hm : (k, x) ∈ kvs)
    (h : HasStr s x) : HasStrM s kvs := by
  induction kvs with
  | nil => simp at hm
  | cons kv kvs ih =>
    obtain ⟨k', x'⟩ := kv
    simp only [HasStrM]
    rcases List.mem_cons.mp hm with e | hm'
    · cases e; exact Or.inl h
    · exact Or.inr (ih hm')

theorem hasNumM_of_mem {s : Bytes} {kvs : List (Bytes × JVal)} {k : Bytes} {x : JVal} (hm : (k, x) ∈ kvs)
    (h : HasNum s x) : HasNumM s kvs := by
  induction kvs with
  | nil => simp at hm
  | cons kv kvs ih =>
    obtain ⟨k', x'⟩ := kv
    simp only [HasNumM]
    rcases List.mem_cons.mp hm with e | hm'
    · cases e; exact Or.inl h
    · exact Or.inr (ih hm')

theorem hasStrL_of_mem {s : Bytes} {xs : List JVal} {x : JVal} (hm : x ∈ xs) (h : HasStr s x) : HasStrL s xs := by
  induction xs with
  | nil => simp at hm
  | cons y xs ih =>
    simp only [HasStrL]
    rcases List.mem_cons.mp hm with e | hm'
    · cases e; exact Or.inl h
    · exact Or.inr (ih hm')

theorem hasNumL_of_mem {s : Bytes} {xs : List JVal} {x : JVal} (hm : x ∈ xs) (h : HasNum s x) : HasNumL s xs := by
  induction xs with
  | nil => simp at hm
  | cons y xs ih =>
    simp only [HasNumL]
    rcases List.mem_cons.mp hm with e | hm'
    · cases e; exact Or.inl h
    · exact Or.inr (ih hm')

theorem sub_member {kvs : List (Bytes × JVal)} {k : Bytes} {x : JVal} (hm : (k, x) ∈ kvs) : Sub x (.obj kvs) :=
  ⟨fun _ h => by simp only [HasStr]; exact hasStrM_of_mem hm h,
   fun _ h => by simp only [HasNum]; exact hasNumM_of_mem hm h⟩

theorem sub_elem {xs : List JVal} {x : JVal} (hm : x ∈ xs) : Sub x (.arr xs) :=
  ⟨fun _ h => by simp only [HasStr]; exact hasStrL_of_mem hm h,
   fun _ h => by simp only [HasNum]; exact hasNumL_of_mem hm h⟩

/-- Each field of the descriptor is the zero value or is written in the document. -/
def FromDoc (V : JVal) (d : Desc) : Prop :=
  (d.mediaType = [] ∨ HasStr d.mediaType V) ∧ (d.digest = [] ∨ HasStr d.digest V) ∧
    (d.size = 0 ∨ ∃ t, HasNum t V ∧ parseInt64 t = some d.size)

theorem fromDoc_zero (V : JVal) : FromDoc V zeroDesc := ⟨Or.inl rfl, Or.inl rfl, Or.inl rfl⟩

theorem setStr_from {V j : JVal} {cur s : Bytes} (hs : Sub j V) (hc : cur = [] ∨ HasStr cur V)
    (h : setStr j cur = some s) : s = [] ∨ HasStr s V := by
  cases j <;> simp [setStr] at h
  · subst h; exact hc
  · subst h; exact Or.inr (hs.1 _ (by simp [HasStr]))

theorem setInt_from {V j : JVal} {cur n : Int} (hs : Sub j V)
    (hc : cur = 0 ∨ ∃ t, HasNum t V ∧ parseInt64 t = some cur)
    (h : setInt j cur = some n) : n = 0 ∨ ∃ t, HasNum t V ∧ parseInt64 t = some n := by
  cases j <;> simp [setInt] at h
  · subst h; exact hc
  · rename_i t; exact Or.inr ⟨t, hs.2 _ (by simp [HasNum]), h⟩

theorem check_some {σ : Type} {b : Bool} {s s' : σ} (h : check b s = some s') : s' = s := by
  cases b <;> simp [check] at h; exact h.symm

theorem descStep_from {V : JVal} {d d' : Desc} {kv : Bytes × JVal} (hs : Sub kv.2 V) (hd : FromDoc V d)
    (h : descStep d kv = some d') : FromDoc V d' := by
  unfold descStep at h
  split at h
  · simp at h; subst h; exact hd
  · cases hx : setStr kv.2 d.mediaType with
    | none => simp [hx] at h
    | some s => simp [hx] at h; subst h; exact ⟨setStr_from hs hd.1 hx, hd.2.1, hd.2.2⟩
  · cases hx : setStr kv.2 d.digest with
    | none => simp [hx] at h
    | some s => simp [hx] at h; subst h; exact ⟨hd.1, setStr_from hs hd.2.1 hx, hd.2.2⟩
  · cases hx : setInt kv.2 d.size with
    | none => simp [hx] at h
    | some s => simp [hx] at h; subst h; exact ⟨hd.1, hd.2.1, setInt_from hs hd.2.2 hx⟩
  all_goals (rw [check_some h]; exact hd)

theorem foldlM_descStep_from {V : JVal} (kvs : List (Bytes × JVal)) (hs : ∀ kv ∈ kvs, Sub kv.2 V) :
    ∀ (d d' : Desc), FromDoc V d → kvs.foldlM descStep d = some d' → FromDoc V d' := by
  induction kvs with
  | nil => intro d d' hd h; simp at h; subst h; exact hd
  | cons kv kvs ih =>
    intro d d' hd h
    simp only [List.foldlM_cons] at h
    cases hx : descStep d kv with
    | none => simp [hx] at h
    | some d1 =>
      simp [hx] at h
      exact ih (fun kv' hm => hs kv' (by simp [hm])) d1 d'
        (descStep_from (hs kv (by simp)) hd hx) h

theorem mergeDesc_from {V j : JVal} {base d : Desc} (hs : Sub j V) (hb : FromDoc V base)
    (h : mergeDesc base j = some d) : FromDoc V d := by
  cases j <;> simp [mergeDesc] at h
  · subst h; exact hb
  · rename_i kvs
    exact foldlM_descStep_from kvs (fun kv hm => sub_trans (sub_member (k := kv.1) (x := kv.2) hm) hs) base d hb h


theorem mergeElems_from {V : JVal} : ∀ (es : List JVal) (back ds : List Desc), (∀ e ∈ es, Sub e V) →
    (∀ d ∈ back, FromDoc V d) → mergeElems back es = some ds → ∀ d ∈ ds, FromDoc V d := by
  intro es
  induction es with
  | nil => intro back ds _ _ h; simp [mergeElems] at h; subst h; simp
  | cons e es ih =>
    intro back ds hs hb h
    rw [mergeElems] at h
    cases hx : mergeDesc (back.headD zeroDesc) e with
    | none => rw [hx] at h; simp at h
    | some d0 =>
      rw [hx] at h
      cases hy : mergeElems back.tail es with
      | none => rw [hy] at h; simp at h
      | some ds0 =>
        rw [hy] at h; simp at h; subst h
        have hhead : FromDoc V (back.headD zeroDesc) := by
          cases back with
          | nil => exact fromDoc_zero V
          | cons b _ => exact hb b (by simp)
        have h0 := mergeDesc_from (hs e (by simp)) hhead hx
        have htl := ih back.tail ds0 (fun e' hm => hs e' (by simp [hm]))
          (fun d hm => hb d (List.mem_of_mem_tail hm)) hy
        intro d hm
        rcases List.mem_cons.mp hm with rfl | hm'
        · exact h0
        · exact htl d hm'

/-- Everything in the slice, in view or stale, comes from the document. -/
def SliceFrom (V : JVal) (s : Slice) : Prop := (∀ d ∈ s.vis, FromDoc V d) ∧ (∀ d ∈ s.stale, FromDoc V d)

theorem sliceStep_from {V j : JVal} {s s' : Slice} (hs : Sub j V) (hf : SliceFrom V s)
    (h : sliceStep s j = some s') : SliceFrom V s' := by
  unfold sliceStep at h
  split at h
  · simp at h; subst h; exact ⟨by simp, by simp⟩
  · simp at h; subst h; exact ⟨by simp, by simp⟩
  · rename_i es _
    have hall : ∀ d ∈ s.vis ++ s.stale, FromDoc V d := by
      intro d hm; rcases List.mem_append.mp hm with h | h
      · exact hf.1 d h
      · exact hf.2 d h
    cases hx : mergeElems (s.vis ++ s.stale) es with
    | none => simp [hx] at h
    | some ds =>
      simp [hx] at h; subst h
      exact ⟨mergeElems_from es _ ds (fun e hm => sub_trans (sub_elem hm) hs) hall hx,
        fun d hm => hall d (List.mem_of_mem_drop hm)⟩
  · simp at h

theorem ptrStep_from {V j : JVal} {p p' : Option Desc} (hs : Sub j V) (hp : ∀ d, p = some d → FromDoc V d)
    (h : ptrStep p j = some p') : ∀ d, p' = some d → FromDoc V d := by
  unfold ptrStep at h
  split at h
  · simp at h; subst h; simp
  · cases hx : mergeDesc (p.getD zeroDesc) j with
    | none => simp [hx] at h
    | some d0 =>
      simp [hx] at h; subst h
      intro d hd; cases hd
      have hb : FromDoc V (p.getD zeroDesc) := by
        cases p with
        | none => exact fromDoc_zero V
        | some b => exact hp b rfl
      exact mergeDesc_from hs hb hx

def TopFrom (V : JVal) (m : Top) : Prop :=
  FromDoc V m.config ∧ SliceFrom V m.items ∧ ∀ d, m.subject = some d → FromDoc V d

theorem topStep_from {V : JVal} (table : List (Bytes × TopField)) {m m' : Top} {kv : Bytes × JVal}
    (hs : Sub kv.2 V) (hm : TopFrom V m) (h : topStep table m kv = some m') : TopFrom V m' := by
  unfold topStep at h
  split at h
  · simp at h; subst h; exact hm
  · rw [check_some h]; exact hm
  · rw [check_some h]; exact hm
  · rw [check_some h]; exact hm
  · rw [check_some h]; exact hm
  · cases hx : mergeDesc m.config kv.2 with
    | none => simp [hx] at h
    | some d => simp [hx] at h; subst h; exact ⟨mergeDesc_from hs hm.1 hx, hm.2.1, hm.2.2⟩
  · cases hx : sliceStep m.items kv.2 with
    | none => simp [hx] at h
    | some d => simp [hx] at h; subst h; exact ⟨hm.1, sliceStep_from hs hm.2.1 hx, hm.2.2⟩
  · cases hx : ptrStep m.subject kv.2 with
    | none => simp [hx] at h
    | some d => simp [hx] at h; subst h; exact ⟨hm.1, hm.2.1, ptrStep_from hs hm.2.2 hx⟩

theorem foldlM_topStep_from {V : JVal} (table : List (Bytes × TopField)) (kvs : List (Bytes × JVal))
    (hs : ∀ kv ∈ kvs, Sub kv.2 V) :
    ∀ (m m' : Top), TopFrom V m → kvs.foldlM (topStep table) m = some m' → TopFrom V m' := by
  induction kvs with
  | nil => intro m m' hm h; simp at h; subst h; exact hm
  | cons kv kvs ih =>
    intro m m' hm h
    simp only [List.foldlM_cons] at h
    cases hx : topStep table m kv with
    | none => simp [hx] at h
    | some m1 =>
      simp [hx] at h
      exact ih (fun kv' hmem => hs kv' (by simp [hmem])) m1 m'
        (topStep_from table (hs kv (by simp)) hm hx) h

theorem topFrom_zero (V : JVal) : TopFrom V {} :=
  ⟨fromDoc_zero V, ⟨by simp, by simp⟩, by simp⟩

theorem decodeTop_from (table : List (Bytes × TopField)) (V : JVal) (m : Top) (h : decodeTop table V = some m) :
    TopFrom V m := by
  cases V <;> simp [decodeTop] at h
  · subst h; exact topFrom_zero _
  · rename_i kvs
    exact foldlM_topStep_from table kvs (fun kv hm => sub_member (k := kv.1) (x := kv.2) hm) {} m (topFrom_zero _) h

theorem imageRefs_from {V : JVal} {m : Top} (h : TopFrom V m) : ∀ r ∈ imageRefs m, FromDoc V r.desc := by
  intro r hr
  simp only [imageRefs, List.mem_append, List.mem_map, List.mem_singleton] at hr
  rcases hr with (⟨d, hd, rfl⟩ | rfl) | hr
  · exact h.2.1.1 d hd
  · exact h.1
  · cases hs : m.subject with
    | none => simp [hs] at hr
    | some d => simp [hs] at hr; subst hr; exact h.2.2 d hs

theorem indexRefs_from {V : JVal} {m : Top} (h : TopFrom V m) : ∀ r ∈ indexRefs m, FromDoc V r.desc := by
  intro r hr
  simp only [indexRefs, List.mem_append, List.mem_map] at hr
  rcases hr with ⟨d, hd, rfl⟩ | hr
  · exact h.2.1.1 d hd
  · cases hs : m.subject with
    | none => simp [hs] at hr
    | some d => simp [hs] at hr; subst hr; exact h.2.2 d hs

theorem decodeWith_from (table : List (Bytes × TopField)) (refs : Top → List RefInfo)
    (hrefs : ∀ V m, TopFrom V m → ∀ r ∈ refs m, FromDoc V r.desc) (data : Bytes) (rs : List RefInfo)
    (h : decodeWith table refs data = .refs rs) :
    ∃ V, parse data = some V ∧ ∀ r ∈ rs, FromDoc V r.desc := by
  unfold decodeWith at h
  cases hp : parse data with
  | none => simp [hp] at h
  | some V =>
    simp only [hp, refsOfVal] at h
    cases hd : decodeTop table V with
    | none => simp [hd] at h
    | some m =>
      simp [hd] at h; subst h
      exact ⟨V, rfl, hrefs V m (decodeTop_from table V m hd)⟩

theorem decodeRefs_from (mt data : Bytes) (rs : List RefInfo) (h : decodeRefs mt data = .refs rs) :
    ∃ V, parse data = some V ∧ ∀ r ∈ rs, FromDoc V r.desc := by
  unfold decodeRefs at h
  by_cases h1 : mt = imageMT
  · simp only [h1, if_true] at h
    exact decodeWith_from _ _ (fun _ _ => imageRefs_from) data rs h
  · simp only [h1, if_false] at h
    by_cases h2 : mt = indexMT
    · simp only [h2, if_true] at h
      exact decodeWith_from _ _ (fun _ _ => indexRefs_from) data rs h
    · simp [h2] at h

end OciModel.ManifestDecode
