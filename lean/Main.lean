import OciModel.Driver.Funcs

/-- One line in, one line out. The first token names the engine. -/
def step (line : String) : String :=
  match (line.trimAscii.toString.splitOn " ") with
  | ["reset"] => "ok"
  | "funcs" :: rest => OciModel.Driver.Funcs.drive rest
  | _ => "bad-engine"

partial def loop (hin hout : IO.FS.Stream) : IO Unit := do
  let line ← hin.getLine
  if line.isEmpty then return ()
  hout.putStrLn (step line)
  loop hin hout

def main : IO Unit := do
  let hin ← IO.getStdin
  let hout ← IO.getStdout
  loop hin hout
  hout.flush
