import OciModel.Driver.Funcs
import OciModel.Driver.Scope
import OciModel.Driver.Ref
import OciModel.Driver.Err
import OciModel.Driver.Mem
import OciModel.Driver.Req
import OciModel.Driver.Upload
import OciModel.Driver.Pager
import OciModel.Driver.Listing
import OciModel.Driver.Select
import OciModel.Driver.Sub
import OciModel.Driver.WrapRO
import OciModel.Driver.AuthFile
import OciModel.Driver.Conc
import OciModel.Driver.BlobReader
import OciModel.Driver.TokenDecode
import OciModel.Driver.Unify
import OciModel.Driver.UnifyID
import OciModel.Driver.Wire
import OciModel.Driver.UnifyConc
import OciModel.Driver.Auth
import OciModel.Driver.Iter
import OciModel.Driver.SrvHandlers
import OciModel.Driver.Resp
import OciModel.Driver.ClientWriter
import OciModel.Driver.ManifestDecode

structure DState where
  scopes : OciModel.Driver.Scope.Regs := []
  mem : OciModel.Mem.State := OciModel.Mem.init false
  up : OciModel.Driver.Upload.UState := {}
  sub : OciModel.Driver.Sub.SubState := {}
  wrap : OciModel.Driver.WrapRO.WrapState := {}
  authfile : OciModel.Driver.AuthFile.St := {}
  uni : OciModel.Driver.Unify.St := {}
  auth : OciModel.Driver.Auth.St := {}
  cw : OciModel.Driver.ClientWriter.St := {}

/-- One line in, one line out. The first token names the engine. -/
def step (st : DState) (line : String) : DState × String :=
  match (line.trimAscii.toString.splitOn " ") with
  | ["reset"] => ({}, "ok")
  | "funcs" :: rest => (st, OciModel.Driver.Funcs.drive rest)
  | "wire" :: "init" :: imm :: _ => ({ st with mem := OciModel.Mem.init (imm == "1") }, "ok")
  | "mem" :: rest =>
    let (m, out) := OciModel.Driver.Mem.drive st.mem rest
    ({ st with mem := m }, out)
  | "mjson" :: rest =>
    let (m, out) := OciModel.Driver.ManifestDecode.drive st.mem rest
    ({ st with mem := m }, out)
  | "srv" :: _ => (st, "skip")
  | "resp" :: rest => (st, OciModel.Driver.Resp.drive rest)
  | "srvh" :: rest => (st, OciModel.Driver.SrvHandlers.drive rest)
  | "auth" :: rest =>
    let (a, out) := OciModel.Driver.Auth.drive st.auth rest
    ({ st with auth := a }, out)
  | "uni" :: rest =>
    let (u, out) := OciModel.Driver.Unify.drive st.uni rest
    ({ st with uni := u }, out)
  | "wire1" :: rest => (st, OciModel.Driver.Wire.drive rest)
  | "uid" :: rest => (st, OciModel.Driver.UnifyID.drive rest)
  | "dbg" :: rest => (st, OciModel.Driver.Iter.drive rest)
  | "uconc" :: rest => (st, OciModel.Driver.UnifyConc.drive rest)
  | "tokdec" :: rest => (st, OciModel.Driver.TokenDecode.drive rest)
  | "rd" :: rest => (st, OciModel.Driver.BlobReader.drive rest)
  | "re" :: rest => (st, OciModel.Driver.BlobReader.drive rest)   -- the last chunk arrives with io.EOF: same contract
  | "rq" :: rest => (st, OciModel.Driver.BlobReader.driveAsked rest)
  | "conc" :: rest => (st, OciModel.Driver.Conc.drive rest)
  | "authfile" :: rest =>
    let (a, out) := OciModel.Driver.AuthFile.drive st.authfile rest
    ({ st with authfile := a }, out)
  | "ac" :: rest => (st, OciModel.Driver.Select.drive "ac" rest)
  | "sel" :: rest => (st, OciModel.Driver.Select.drive "sel" rest)
  | "sub" :: rest =>
    let (s, out) := OciModel.Driver.Sub.drive st.sub rest
    ({ st with sub := s }, out)
  | "wrap" :: rest =>
    let (s, out) := OciModel.Driver.WrapRO.drive st.wrap rest
    ({ st with wrap := s }, out)
  | "cl" :: _ => (st, "skip")
  | "cw" :: rest =>
    let (c, out) := OciModel.Driver.ClientWriter.drive st.cw rest
    ({ st with cw := c }, out)
  | "ls" :: rest => (st, OciModel.Driver.Listing.drive rest)
  | "pg" :: rest => (st, OciModel.Driver.Pager.drive rest)
  | "up" :: rest =>
    let (u, out) := OciModel.Driver.Upload.drive st.up rest
    ({ st with up := u }, out)
  | "req" :: rest => (st, OciModel.Driver.Req.drive rest)
  | "err" :: rest => (st, OciModel.Driver.Err.drive rest)
  | "ref" :: rest => (st, OciModel.Driver.Ref.drive rest)
  | "rere" :: rest => (st, OciModel.Driver.Ref.driveRe rest)
  | "scope" :: rest =>
    let (r, out) := OciModel.Driver.Scope.drive st.scopes rest
    ({ st with scopes := r }, out)
  | _ => (st, "bad-engine")

partial def loop (hin hout : IO.FS.Stream) (st : DState) : IO Unit := do
  let line ← hin.getLine
  if line.isEmpty then return ()
  let (st', out) := step st line
  hout.putStrLn out
  loop hin hout st'

def main : IO Unit := do
  let hin ← IO.getStdin
  let hout ← IO.getStdout
  loop hin hout {}
  hout.flush
